"""C15 helpers: class invariants, snapshots, late-bound operation resolvers, history runner.

No pgmpy import at module level (the parent process imports this without pgmpy)."""
import hashlib
import random

import numpy as np

from rv import gen

MAXPOOL = 5
TOL = 1e-9

# ------------------------------------------------------------------ independent cycle finders
def find_dicycle(succ):
    """A directed cycle (list of nodes) in an adjacency mapping {u: iterable of v}, or None.
    Iterative three-colour DFS; a self loop is a cycle of length one."""
    color = {}
    for s in succ:
        if s in color:
            continue
        color[s] = 1
        stack = [(s, iter(succ[s]))]
        path = [s]
        while stack:
            n, it = stack[-1]
            advanced = False
            for m in it:
                c = color.get(m)
                if c == 1:
                    return path[path.index(m):] if m in path else [n, m]
                if c is None:
                    color[m] = 1
                    stack.append((m, iter(succ.get(m, ()))))
                    path.append(m)
                    advanced = True
                    break
            if not advanced:
                color[n] = 2
                stack.pop()
                path.pop()
    return None


def find_ucycle(adj):
    """An edge (u, v) closing a cycle in an undirected adjacency mapping, or None (union-find).
    A self loop counts as a cycle."""
    parent = {}

    def root(x):
        while parent.setdefault(x, x) != x:
            parent[x] = parent[parent[x]]
            x = parent[x]
        return x

    seen = set()
    for u in adj:
        for v in adj[u]:
            if u == v:
                return (u, v)
            k = frozenset((u, v))
            if k in seen:
                continue
            seen.add(k)
            ru, rv_ = root(u), root(v)
            if ru == rv_:
                return (u, v)
            parent[ru] = rv_
    return None


# ------------------------------------------------------------------ I1 as a class invariant
INV = {"evals": 0, "fired": 0, "installed": 0, "icontract": 0}


class C15AcyclicityBroken(Exception):
    """Raised by the class invariant when a BN / DBN holds a directed cycle or a JT a cycle."""


def directed_graph_is_acyclic(self):
    INV["evals"] += 1
    ok = find_dicycle(self._succ) is None
    if not ok:
        INV["fired"] += 1
    return ok


def junction_tree_is_forest(self):
    INV["evals"] += 1
    ok = find_ucycle(self._adj) is None
    if not ok:
        INV["fired"] += 1
    return ok


def _own_invariant(cls, cond):
    """Fallback when icontract is unavailable: check on exit of the public editing methods."""
    import functools
    for name in ("__init__", "add_node", "add_nodes_from", "add_edge", "add_edges_from", "remove_node",
                 "remove_nodes_from", "add_cpds", "remove_cpds", "add_factors", "copy", "do"):
        fn = getattr(cls, name, None)
        if fn is None or getattr(fn, "__c15_wrapped__", False):
            continue

        def mk(fn):
            @functools.wraps(fn)
            def wrapper(self, *a, **k):
                out = fn(self, *a, **k)
                if not cond(self):
                    raise C15AcyclicityBroken(f"{cond.__name__} violated after {fn.__name__}")
                return out
            wrapper.__c15_wrapped__ = True
            return wrapper
        setattr(cls, name, mk(fn))


def install_invariants():
    """Install I1 on BayesianNetwork, DynamicBayesianNetwork and JunctionTree (idempotent)."""
    if INV["installed"]:
        return
    from pgmpy.models import BayesianNetwork, DynamicBayesianNetwork, JunctionTree
    targets = [(BayesianNetwork, directed_graph_is_acyclic), (DynamicBayesianNetwork, directed_graph_is_acyclic),
               (JunctionTree, junction_tree_is_forest)]
    try:
        import icontract
        for cls, cond in targets:
            icontract.invariant(cond, error=C15AcyclicityBroken)(cls)
        INV["icontract"] = 1
    except ImportError:
        for cls, cond in targets:
            _own_invariant(cls, cond)
    INV["installed"] = 1


def invariant_report():
    return {"i1_invariant_evals": INV["evals"], "i1_invariant_fired": INV["fired"],
            "i1_invariant_via_icontract": INV["icontract"],
            "i1_invariant_note": "zero evaluations" if not INV["evals"] else "evaluated"}


# ----------------------------------------------------------------------------- snapshots
def nk(n):
    """Plain-data key of a node (DynamicNode -> tuple)."""
    t = getattr(n, "to_tuple", None)
    return t() if callable(t) else n


def rk(n):
    return repr(nk(n))


def _np(x):
    try:
        import torch
        if isinstance(x, torch.Tensor):
            return x.detach().cpu().numpy()
    except Exception:
        pass
    return np.asarray(x)


def read_table(c):
    """Plain-data view of a CPD / factor through variables, cardinality, state_names, values."""
    d = {"cls": type(c).__name__}
    try:
        d["var"] = nk(c.variable) if hasattr(c, "variable") else None
        d["vars"] = [nk(v) for v in c.variables]
        d["card"] = [int(k) for k in c.cardinality]
        sn = getattr(c, "state_names", None) or {}
        d["sn"] = {rk(k): [repr(s) for s in v] for k, v in sn.items()}
        d["vals"] = np.array(_np(c.values), dtype=float)
        h = hashlib.sha1(repr((d["cls"], repr(d["var"]), [repr(v) for v in d["vars"]], d["card"],
                               sorted((k, tuple(v)) for k, v in d["sn"].items() if k in {repr(x) for x in d["vars"]}),
                               d["vals"].shape)).encode())
        h.update(np.ascontiguousarray(d["vals"]).tobytes())
        d["fp"] = h.hexdigest()[:16]
    except Exception as e:  # unreadable object in the list: still a definite fingerprint
        d.setdefault("var", None)
        d.setdefault("vars", [])
        d["fp"] = f"unreadable:{type(e).__name__}"
        d["bad"] = f"{type(e).__name__}: {e}"
    return d


class Snap:
    __slots__ = ("nodes", "nodeset", "edges", "latents", "tables", "fps", "parents", "directed", "key")

    def diff(self, other):
        out = []
        for a in ("nodes", "edges", "latents"):
            if getattr(self, a) != getattr(other, a):
                out.append(a)
        if self.fps != other.fps:
            out.append("cpds")
        return out


def snapshot(o):
    import networkx as nx
    s = Snap()
    s.directed = isinstance(o, nx.DiGraph)
    keys = [nk(n) for n in o._node]
    s.nodeset = set(keys)
    s.nodes = tuple(sorted(repr(k) for k in keys))
    if s.directed:
        es = [(nk(u), nk(v)) for u, nb in o._succ.items() for v in nb]
        s.edges = tuple(sorted(repr(e) for e in es))
        s.parents = {nk(v): frozenset(nk(p) for p in pr) for v, pr in o._pred.items()}
    else:
        es = set()
        for u, nb in o._adj.items():
            for v in nb:
                es.add(tuple(sorted((rk(u), rk(v)))))
        s.edges = tuple(sorted(repr(e) for e in es))
        s.parents = {}
    lat = getattr(o, "latents", None)
    try:
        s.latents = None if lat is None else tuple(sorted(rk(x) for x in lat))
    except TypeError:
        s.latents = ("unreadable",)
    lst = getattr(o, "cpds", None)
    if lst is None:
        lst = getattr(o, "factors", None)
    s.tables = [read_table(c) for c in lst] if isinstance(lst, (list, tuple)) else []
    s.fps = tuple(sorted(t["fp"] for t in s.tables))
    s.key = (s.nodes, s.edges, s.latents, s.fps)
    return s


def named(vars_, sn, card, vals):
    """{frozenset((repr(var), repr(state))): value} for a table with axes vars_."""
    import itertools
    out = {}
    names = []
    for v, k in zip(vars_, card):
        l = sn.get(repr(v))
        names.append(l if l is not None and len(l) == k else [repr(i) for i in range(k)])
    for idx in itertools.product(*[range(k) for k in card]):
        out[frozenset((repr(v), names[i][j]) for i, (v, j) in enumerate(zip(vars_, idx)))] = float(vals[idx])
    return out


def table_valid(t):
    """Columns of a CPD snapshot sum to one and the shape matches the cardinalities."""
    if "bad" in t or t.get("var") is None or not t["vars"] or t["vars"][0] != t["var"]:
        return False
    v = t["vals"]
    if tuple(v.shape) != tuple(t["card"]) or len(t["vars"]) != len(t["card"]):
        return False
    if len(set(map(repr, t["vars"]))) != len(t["vars"]):
        return False
    if not np.all(np.isfinite(v)) or np.any(v < -1e-12):
        return False
    return bool(np.allclose(v.sum(axis=0), 1.0, atol=1e-6))


# ----------------------------------------------------------------------------- op tables
_BN = [("add_node", (10, 4)), ("add_nodes", (6, 2)), ("add_edge", (24, 10)), ("add_edges", (8, 4)),
       ("add_cpd", (12, 10)), ("complete", (3, 7)), ("remove_node", (3, 9)), ("remove_nodes", (1, 3)),
       ("remove_cpds", (3, 6)), ("do", (3, 9)), ("copy", (5, 8)), ("random_cpds", (3, 6)),
       ("check_model", (4, 5)), ("query", (3, 7)), ("get_cpds", (2, 2)), ("edit_cpd", (1, 4)),
       ("rewire", (2, 7)), ("reregister", (1, 4))]
OP_TABLE = {
    "bn": _BN,
    "dag": _BN + [("construct", (14, 9))],
    "dbn": [("add_node", (8, 3)), ("add_nodes", (5, 2)), ("add_edge", (28, 14)), ("add_edges", (8, 5)),
            ("add_cpd", (12, 12)), ("complete", (3, 7)), ("remove_node", (4, 9)), ("remove_nodes", (1, 3)),
            ("remove_cpds", (3, 6)), ("do", (3, 8)), ("copy", (5, 9)), ("check_model", (4, 6)),
            ("get_cpds", (3, 4)), ("edit_cpd", (1, 5))],
    "mn": [("add_node", (10, 4)), ("add_nodes", (6, 2)), ("add_edge", (26, 12)), ("add_edges", (8, 5)),
           ("add_factor", (12, 12)), ("remove_node", (3, 9)), ("remove_nodes", (1, 3)),
           ("remove_factors", (3, 7)), ("copy", (5, 9)), ("check_model", (4, 6)), ("query", (3, 6)),
           ("edit_factor", (1, 4))],
    "jt": [("add_node", (12, 5)), ("add_nodes", (6, 2)), ("add_edge", (28, 16)), ("add_edges", (8, 6)),
           ("add_factor", (10, 12)), ("remove_node", (3, 8)), ("remove_nodes", (1, 3)),
           ("remove_factors", (3, 6)), ("copy", (5, 9)), ("check_model", (4, 6)), ("query", (2, 4)),
           ("edit_factor", (1, 4))],
}
BAD_RATE = {"add_edge": 0.32, "add_edges": 0.35, "copy": 0.0, "check_model": 0.0, "complete": 0.0,
            "query": 0.0, "add_node": 0.15, "add_nodes": 0.15, "construct": 0.4}
UNKNOWN = {"bn": "zz", "dag": "zz", "mn": "zz"}


class Plan:
    def __init__(self, fn, label, mut="inplace", single=True, new=False, info=None):
        self.fn, self.label, self.mut, self.single, self.new = fn, label, mut, single, new
        self.info = info or {}


class Ent:
    def __init__(self, o, origin, serial):
        self.o, self.origin, self.serial = o, origin, serial
        self.snap = snapshot(o)
        self.qcache = {}


def pick(seq, m):
    return seq[m % len(seq)]


class History:
    def __init__(self, spec, ctx, neutral=(), upto=None):
        self.spec, self.ctx = spec, ctx
        self.kind = spec["kind"]
        self.neutral = set(neutral)
        self.upto = upto
        self.pool = []
        self.serial = 0
        self.stats = {"steps": 0, "rejected": 0, "max_edges": 0, "max_pool": 0, "i4_pairs": 0}
        self.i4_violations = 0
        if self.kind == "jt":
            self.names = [tuple(c) for c in spec["names"]]
            self.cards = dict(zip(spec["vars"], spec["card"]))
        else:
            self.names = list(spec["names"])
            self.cards = dict(zip(self.names, spec["card"]))

    # ---------------------------------------------------------------- small helpers
    def cardof(self, v):
        if self.kind == "dbn":
            v = nk(v)[0] if isinstance(nk(v), tuple) else v
        return self.cards.get(v, 2)

    def states(self, v):
        k = self.cardof(v)
        return [f"{v}_s{i}" for i in range(k)]

    def sn_for(self, vs):
        return {v: self.states(v) for v in vs} if self.spec["sn"] == "str" else {}

    def make_cpd(self, var, parents, rng):
        from pgmpy.factors.discrete import TabularCPD
        r = self.cardof(var)
        q = 1
        for p in parents:
            q *= self.cardof(p)
        table = gen.rand_cpt(rng, r, q)
        return TabularCPD(var, r, table, evidence=list(parents) or None,
                          evidence_card=[self.cardof(p) for p in parents] or None,
                          state_names=self.sn_for([var] + list(parents)))

    def make_factor(self, vs, rng):
        from pgmpy.factors.discrete import DiscreteFactor
        card = [self.cardof(v) for v in vs]
        size = int(np.prod(card)) if card else 1
        vals = [rng.choice(gen.GRID) * (1 + rng.randint(0, 3)) for _ in range(size)]
        return DiscreteFactor(list(vs), card, vals, state_names=self.sn_for(list(vs)))

    def add_obj(self, o, origin, rng):
        self.serial += 1
        e = Ent(o, origin, self.serial)
        if "latents" in self.neutral and isinstance(getattr(o, "latents", None), set):
            o.latents = set(o.latents)
        self.pool.append(e)
        if len(self.pool) > self.spec.get("maxpool", MAXPOOL):
            del self.pool[1 + rng.randrange(len(self.pool) - 2)]
        self.stats["max_pool"] = max(self.stats["max_pool"], len(self.pool))
        return e

    # ---------------------------------------------------------------- run
    def run(self):
        ctx = self.ctx
        from pgmpy.models import BayesianNetwork, DynamicBayesianNetwork, JunctionTree, MarkovNetwork
        st0 = np.random.get_state()
        np.random.seed(self.spec["np_seed"])
        try:
            mk = {"bn": BayesianNetwork, "dbn": DynamicBayesianNetwork, "mn": MarkovNetwork,
                  "jt": JunctionTree}.get(self.kind)
            if mk is not None:
                r = ctx.call(mk)
                if ctx.failed(r):
                    ctx.violation(f"c15:exception:{r.type}@{r.where}", f"empty {mk.__name__}() raised {r!r}")
                    return
                self.add_obj(r, "empty", random.Random(0))
                self.check_i1(self.pool[0], "empty model")
            for i, st in enumerate(self.spec["steps"]):
                if self.upto is not None and i > self.upto:
                    break
                if not self.step(i, st):
                    break
        finally:
            np.random.set_state(st0)
        s = self.stats
        ctx.feature("kind:" + self.kind)
        ctx.nontrivial = bool(s["steps"] >= 8 and s["rejected"] >= 1 and s["max_edges"] >= 1 and s["i4_pairs"] >= 1)

    # ---------------------------------------------------------------- one step
    def step(self, i, st):
        ctx = self.ctx
        rng = random.Random(st["r"])
        if not self.pool:
            ent = None
            plan = self.plan_construct(None, st, rng)
        else:
            ent = self.pool[st["t"] % len(self.pool)]
            plan = self.resolve(ent, st, rng)
        label = f"step {i} {plan.label} on #{ent.serial if ent else '-'}"
        pre = ent.snap if ent else None
        r = ctx.call(plan.fn)
        failed = ctx.failed(r)
        self.stats["steps"] += 1
        ctx.note("op:" + st["op"])
        inv_fired = failed and r.type == "C15AcyclicityBroken"
        if failed:
            self.stats["rejected"] += 1
            ctx.note(f"rejected:{r.type}")
        snaps = [snapshot(e.o) for e in self.pool]

        # I4: no other live object changed
        for e, s in zip(self.pool, snaps):
            if e is ent:
                continue
            self.stats["i4_pairs"] += 1
            if s.key != e.snap.key:
                self.report_alias(i, label, ent, e, s)
            else:
                ctx.ok()
        # target: I2 / non-inplace purity
        cont = True
        if ent is not None:
            ts = snaps[self.pool.index(ent)]
            changed = ts.key != pre.key
            if failed and not inv_fired:
                if changed and plan.single:
                    self.report_partial(label, ent, pre, ts, plan, r)
                elif changed:
                    ctx.note("batch-partial")
                else:
                    ctx.ok()
            elif not failed:
                if plan.mut == "pure":
                    ctx.expect(not changed, "c15:non-inplace-op-mutated-target",
                               f"{label}: a non-inplace operation changed its own object ({pre.diff(ts)})")
                elif plan.mut == "read" and changed:
                    ctx.note("read-op-changed-target")
        # commit snapshots, invalidate caches
        for e, s in zip(self.pool, snaps):
            e.snap = s
        if ent is not None and plan.mut == "inplace":
            ent.qcache.clear()
        # I1 on every live object
        for e in list(self.pool):
            if not self.check_i1(e, label, plan, pre if e is ent else None):
                cont = False
        for e in self.pool:
            self.check_registry(e, label, pre if e is ent else None)
        if inv_fired and cont:
            raise RuntimeError(f"class invariant fired but the checker sees no cycle ({label})")
        # new object
        new_ent = None
        if not failed and plan.new:
            if r is None or not hasattr(r, "_node"):
                ctx.violation("c15:malformed-result", f"{label}: expected a model object, got {type(r).__name__}")
            else:
                new_ent = self.add_obj(r, plan.label, rng)
                if not self.check_i1(new_ent, label + " (result)", plan, pre):
                    cont = False
                self.check_registry(new_ent, label + " (result)")
        # I3
        if not failed and cont and plan.info.get("i3"):
            post_ent = new_ent if plan.new else ent
            if post_ent is not None and hasattr(post_ent.o, "cpds"):
                self.check_i3(label, pre, post_ent.snap, post_ent.o, plan)
        # queries of untouched objects
        if cont and (st["op"] == "query" or (plan.mut == "inplace" and not failed and rng.random() < 0.15)):
            self.ask_all(label, st)
        for e in self.pool:
            ne = len(e.snap.edges)
            if ne > self.stats["max_edges"]:
                self.stats["max_edges"] = ne
        return cont

    # ---------------------------------------------------------------- I1
    def check_i1(self, e, label, plan=None, pre=None):
        import networkx as nx
        from pgmpy.base import DAG
        from pgmpy.models import JunctionTree
        o = e.o
        ctx = self.ctx
        if isinstance(o, JunctionTree):
            cyc = find_ucycle(o._adj)
            if cyc is None:
                ctx.ok()
                return True
            key = "c15:jt-cycle"
            u, v = cyc
            if u == v and plan is not None and plan.info.get("selfnew"):
                key = "c15:jt-cycle:self-loop-on-new-clique"
            ctx.violation(key, f"{label}: JunctionTree holds a cycle closed by edge {nk(u)!r} - {nk(v)!r}")
            return False
        if isinstance(o, DAG):
            cyc = find_dicycle(o._succ)
            if cyc is None:
                ctx.ok()
                return True
            cls = type(o).__name__
            key = f"c15:cycle:{cls}"
            if cls == "DynamicBayesianNetwork" and self.dbn_mirror_cycle(o, cyc, pre):
                key = "c15:dbn-cycle:mirror-edge-unchecked"
            ctx.violation(key, f"{label}: {cls} holds the directed cycle {[nk(n) for n in cyc]!r}")
            return False
        return True

    # ---------------------------------------------------------------- CPD registry (registration / replacement)
    @staticmethod
    def wrong_cpd_removed(pre, post, var):
        """remove_cpds(node) looks the node's CPD up and then calls list.remove, which matches by factor
        EQUALITY (same variable set and values, any axis order, any owner): an equal table of another node that
        sits earlier in the list is removed instead and the node's own CPD stays."""
        if pre is None:
            return False
        own = [j for j, t in enumerate(pre.tables) if t.get("var") == var and "bad" not in t]
        if not own:
            return False
        j = own[0]
        tj = pre.tables[j]
        a = named(tj["vars"], tj["sn"], tj["card"], tj["vals"])
        post_fps = list(post.fps)
        for ti in pre.tables[:j]:
            if "bad" in ti or ti.get("var") == var or {repr(v) for v in ti["vars"]} != {repr(v) for v in tj["vars"]}:
                continue
            b = named(ti["vars"], ti["sn"], ti["card"], ti["vals"])
            if set(a) == set(b) and all(abs(a[k] - b[k]) <= 1e-8 for k in a) \
                    and ti["fp"] not in post_fps and tj["fp"] in post_fps:
                return True
        return False

    def check_registry(self, e, label, pre=None):
        """Per node, the CPDs registered on a BayesianNetwork: add_cpds replaces the CPD of a variable, and
        remove_node drops it, so at no time may a node own two CPDs or a CPD belong to a non-node.
        (DynamicBayesianNetwork.add_cpds appends by design; its leftovers are judged by I3 only.)"""
        if type(e.o).__name__ != "BayesianNetwork":
            return
        ctx = self.ctx
        flagged = self.__dict__.setdefault("_flagged", set())
        count = {}
        for t in e.snap.tables:
            count[repr(t.get("var"))] = count.get(repr(t.get("var")), 0) + 1
        bad = False
        for t in e.snap.tables:
            var = t.get("var")
            rv_ = repr(var)
            if count[rv_] > 1 and (e.serial, "dup", rv_) not in flagged:
                flagged.add((e.serial, "dup", rv_))
                bad = True
                scopes = [[repr(v) for v in x["vars"]] for x in e.snap.tables if repr(x.get("var")) == rv_]
                ctx.violation("c15:duplicate-cpd", f"{label}: object #{e.serial} holds {count[rv_]} CPDs for node {var!r} "
                              f"(scopes {scopes}); registering a CPD must replace the node's previous one")
            if var not in e.snap.nodeset and (e.serial, "orphan", rv_) not in flagged:
                flagged.add((e.serial, "orphan", rv_))
                bad = True
                k_ = "c15:orphan-cpd"
                if self.wrong_cpd_removed(pre, e.snap, var):
                    k_ = "c15:remove-cpds-matches-by-equality"
                ctx.violation(k_, f"{label}: object #{e.serial} holds a CPD for {var!r}, which is not a "
                              f"node of the graph")
        if not bad:
            ctx.ok()

    def dbn_mirror_cycle(self, o, cyc, pre):
        """The cycle lies in one slice while the other slice's image of it is not a cycle, i.e. the two
        slices were asymmetric before the step (possible only after a graph-only remove_node / do),
        and DBN.add_edge path-checks only the slice-0 edge before adding both."""
        sl = {nk(n)[1] for n in cyc}
        if len(sl) != 1:
            return False
        s = sl.pop()
        other = 1 - s
        es = {(nk(u), nk(v)) for u, nb in o._succ.items() for v in nb}
        ring = list(zip(cyc, cyc[1:] + cyc[:1]))
        mirrored = all(((nk(u)[0], other), (nk(v)[0], other)) in es for u, v in ring)
        return s == 1 and not mirrored

    # ---------------------------------------------------------------- I2 classification
    def report_partial(self, label, ent, pre, ts, plan, r):
        ctx = self.ctx
        key = "c15:rejected-op-changed-model"
        info = plan.info
        cls = type(ent.o).__name__
        if cls == "BayesianNetwork" and info.get("op") in ("remove_node", "remove_nodes"):
            n = info["node"] if info["op"] == "remove_node" else info["nodes"][0]     # single => one element
            kids = [v for v, ps in pre.parents.items() if n in ps]
            stale = [v for v in kids for t in pre.tables if t.get("var") == v and n not in t["vars"][1:]]
            if stale and pre.diff(ts) == ["cpds"]:
                key = "c15:remove-node-partial:child-cpd-lacks-parent"
        if cls == "BayesianNetwork" and info.get("op") == "do" and info.get("inplace"):
            have = {repr(t.get("var")) for t in pre.tables}
            if pre.tables and any(repr(n) not in have for n in info["nodes"]) and r.type == "AttributeError":
                key = "c15:do-inplace-partial:node-without-cpd"
        ctx.violation(key, f"{label}: raised {r!r} but changed {pre.diff(ts)} of its target",
                      before=dict(nodes=pre.nodes, edges=pre.edges, latents=pre.latents,
                                  cpds=[(repr(t.get('var')), [repr(v) for v in t['vars']]) for t in pre.tables]),
                      after=dict(nodes=ts.nodes, edges=ts.edges, latents=ts.latents,
                                 cpds=[(repr(t.get('var')), [repr(v) for v in t['vars']]) for t in ts.tables]))

    # ---------------------------------------------------------------- I4 classification
    def report_alias(self, i, label, ent, victim, s):
        ctx = self.ctx
        d = victim.snap.diff(s)
        key = "c15:copy-not-isolated"
        if d == ["latents"] and ent is not None and getattr(ent.o, "latents", None) is getattr(victim.o, "latents", 0) \
                and isinstance(ent.o.latents, set):
            # the two objects hold the SAME set object; confirm by replaying with copies given their own set
            if "latents" not in self.neutral and self.neutral_replay_clean(i):
                key = "c15:copy-aliasing:latents-set-shared"
        self.i4_violations += 1
        ctx.violation(key, f"{label} changed {d} of the untouched object #{victim.serial} ({victim.origin}): "
                           f"latents {victim.snap.latents} -> {s.latents}" if d == ["latents"] else
                      f"{label} changed {d} of the untouched object #{victim.serial} ({victim.origin})",
                      target=f"#{ent.serial if ent else '-'} {ent.origin if ent else ''}")

    def neutral_replay_clean(self, upto):
        from rv import monitors
        scratch = monitors.Ctx(self.ctx.prop, self.ctx.tier, backend=self.ctx.backend)
        h = History(self.spec, scratch, neutral={"latents"}, upto=upto)
        try:
            h.run()
        except Exception:
            return False
        return h.i4_violations == 0

    # ---------------------------------------------------------------- I3
    def check_i3(self, label, pre, post, obj, plan):
        ctx = self.ctx
        cls = type(obj).__name__
        op = plan.info.get("op")

        def key(generic):
            if cls == "DynamicBayesianNetwork":
                meth = "remove_node" if op in ("remove_node", "remove_nodes") else "do"
                fn = getattr(type(obj), meth, None)
                while hasattr(fn, "__wrapped__"):
                    fn = fn.__wrapped__
                if getattr(fn, "__module__", "") != type(obj).__module__:
                    # DBN does not define the method: it runs networkx's / DAG's graph-only version, CPDs untouched
                    return f"c15:dbn-graph-only-edit:{meth}"
            return generic

        post_by_var = {}
        for t in post.tables:
            post_by_var.setdefault(repr(t.get("var")), []).append(t)
        pre_count = {}
        for t in pre.tables:
            pre_count[repr(t.get("var"))] = pre_count.get(repr(t.get("var")), 0) + 1
        checked = 0
        left = pre.nodeset - post.nodeset
        for var in sorted(left, key=repr):                 # leftover CPDs of nodes that left the graph in this step
            now = post_by_var.get(repr(var), [])
            if now and (pre_count.get(repr(var), 0) != 1):  # (the single consistent case is judged below)
                ctx.violation(key("c15:i3-orphan-cpd"),
                              f"{label}: node {var!r} left the graph but {len(now)} CPD(s) for it are still attached")
        for t in pre.tables:
            var = t.get("var")
            rv_ = repr(var)
            if pre_count[rv_] != 1 or var not in pre.nodeset or not table_valid(t) \
                    or frozenset(t["vars"][1:]) != pre.parents.get(var, frozenset()):
                ctx.note("i3-skipped-cpd-not-consistent-before")
                continue
            checked += 1
            now = post_by_var.get(rv_, [])
            if var not in post.nodeset:
                k_ = key("c15:i3-orphan-cpd")
                if now and cls == "BayesianNetwork" and self.wrong_cpd_removed(pre, post, var):
                    k_ = "c15:remove-cpds-matches-by-equality"
                ctx.expect(not now, k_,
                           f"{label}: node {var!r} left the graph but its CPD is still attached")
                continue
            if len(now) != 1:
                ctx.violation(key("c15:i3-cpd-missing"), f"{label}: {len(now)} CPDs for remaining node {var!r} (1 before)")
                continue
            g = now[0]
            want_par = post.parents.get(var, frozenset())
            if "bad" in g or not g["vars"] or g["vars"][0] != var or frozenset(g["vars"][1:]) != want_par \
                    or len(g["vars"]) != 1 + len(want_par):
                ctx.violation(key("c15:i3-scope"),
                              f"{label}: CPD of {var!r} has evidence {[repr(v) for v in g['vars'][1:]]} but the graph "
                              f"parents are {sorted(map(repr, want_par))}")
                continue
            if not table_valid(g):
                ctx.violation(key("c15:i3-invalid-cpd"), f"{label}: CPD of {var!r} is not a valid conditional "
                              f"distribution (card {g['card']}, shape {g['vals'].shape}, column sums "
                              f"{np.round(g['vals'].sum(axis=0).ravel()[:6], 6).tolist()})")
                continue
            if not want_par <= frozenset(t["vars"][1:]):
                ctx.note("i3-skipped-new-parent")
                continue
            drop = tuple(ax for ax, v in enumerate(t["vars"]) if ax > 0 and v not in want_par)
            exp = t["vals"].mean(axis=drop) if drop else t["vals"]
            keep = [v for ax, v in enumerate(t["vars"]) if ax not in drop]
            kcard = [k for ax, k in enumerate(t["card"]) if ax not in drop]
            a = named(keep, t["sn"], kcard, exp)
            b = named(g["vars"], g["sn"], g["card"], g["vals"])
            bad = None
            if set(a) != set(b):
                bad = f"assignments differ: {sorted(map(sorted, set(a) ^ set(b)))[:2]}"
            else:
                for k_ in a:
                    if abs(a[k_] - b[k_]) > TOL + TOL * abs(a[k_]):
                        bad = f"{sorted(k_)}: got {b[k_]!r}, uniform average is {a[k_]!r}"
                        break
            if bad:
                ctx.violation(key("c15:i3-wrong-marginal"), f"{label}: CPD of {var!r}: {bad}")
            else:
                ctx.ok()
        if checked:
            ctx.note("i3-cpds-checked", checked)
            ctx.feature("i3")

    # ---------------------------------------------------------------- queries
    def answer(self, e, m):
        """A query answer of object e as plain data, or None when the object is not queryable."""
        ctx = self.ctx
        o = e.o
        cls = type(o).__name__
        if cls not in ("BayesianNetwork", "MarkovNetwork", "JunctionTree") or not o._node:
            return None, None
        r = ctx.call(o.check_model)
        if ctx.failed(r) or r is not True:
            return None, None
        if cls == "BayesianNetwork":
            from pgmpy.inference import VariableElimination
            nodes = sorted((nk(n) for n in o._node), key=repr)
            v = nodes[0] if m % 2 == 0 else nodes[-1]
            r = ctx.call(lambda: VariableElimination(o).query([v], show_progress=False))
            if ctx.failed(r):
                ctx.note(f"query-raised:{r.type}")
                return None, None
            try:
                vals = np.array(_np(r.values), dtype=float).ravel()
                names = [repr(s) for s in r.state_names[v]]
                return repr(v), dict(zip(names, vals.tolist()))
            except Exception as ex:
                ctx.note(f"query-unreadable:{type(ex).__name__}")
                return None, None
        r = ctx.call(o.get_partition_function)
        if ctx.failed(r):
            ctx.note(f"query-raised:{r.type}")
            return None, None
        try:
            return "Z", {"Z": float(_np(r))}
        except Exception:
            return None, None

    def ask_all(self, label, st):
        ctx = self.ctx
        before = [e.snap.key for e in self.pool]
        for e in self.pool:
            q, a = self.answer(e, st["m"])
            if q is None:
                continue
            ctx.note("queries")
            old = e.qcache.get(q)
            if old is not None:
                same = set(old) == set(a) and all(abs(old[k] - a[k]) <= TOL + TOL * abs(old[k]) for k in old)
                ctx.expect(same, "c15:query-answer-changed",
                           f"{label}: answer {q} of object #{e.serial} ({e.origin}) changed although the object was "
                           f"not edited: {old} -> {a}")
                ctx.note("query-answers-compared")
                ctx.feature("query-compared")
            e.qcache[q] = a
        for e, k in zip(self.pool, before):       # asking must not edit anything either (noted, C16 judges it)
            s = snapshot(e.o)
            if s.key != k:
                ctx.note("query-changed-model")
                e.snap = s

    # ---------------------------------------------------------------- resolvers
    def resolve(self, ent, st, rng):
        from pgmpy.base import DAG
        op = st["op"]
        if self.kind in ("bn", "dag"):
            if type(ent.o) is DAG and op not in ("add_node", "add_nodes", "do", "copy", "construct"):
                op = pick(["do", "copy", "add_node", "copy"], st["m"])
            return getattr(self, "bn_" + op)(ent, st, rng)
        return getattr(self, f"{self.kind}_{op}")(ent, st, rng)

    # ===== shared node-level ops (bn / dag / mn) =====
    def _present(self, ent):
        return sorted((nk(n) for n in ent.o._node), key=repr)

    def _absent(self, ent):
        have = {repr(nk(n)) for n in ent.o._node}
        return [n for n in self.names if repr(n) not in have]

    def _reach(self, ent):
        succ = {nk(u): [nk(v) for v in nb] for u, nb in ent.o._succ.items()}
        out = {}
        for s in succ:
            seen, stack = set(), [s]
            while stack:
                x = stack.pop()
                for y in succ.get(x, ()):
                    if y not in seen:
                        seen.add(y)
                        stack.append(y)
            out[s] = seen
        return succ, out

    # optional arguments of the editing operations (documented signatures: weight= / weights=[...])
    @staticmethod
    def _kw_weight(rng, p=0.35):
        return {"weight": rng.choice([0.1, 0.3, 0.5, 1, 2])} if rng.random() < p else {}

    @staticmethod
    def _kw_weights(rng, n, p=0.45):
        """weights=[...] for a batch of n elements; now and then of the wrong length (documented ValueError)."""
        x = rng.random()
        if x >= p or n == 0:
            return {}
        k = n + 1 if x < 0.04 else n
        return {"weights": [rng.choice([0.1, 0.3, 0.5, 1, 2]) for _ in range(k)]}

    def bn_add_node(self, ent, st, rng):
        o = ent.o
        absent, present = self._absent(ent), self._present(ent)
        n = rng.choice(absent) if absent and (not present or rng.random() < 0.8) else rng.choice(present or self.names)
        if hasattr(o, "latents") and self.kind != "mn":
            lat = st["flag"] and rng.random() < 0.7
            kw = self._kw_weight(rng)
            return Plan(lambda: o.add_node(n, latent=lat, **kw), f"add_node({n!r}, latent={lat}, **{kw})")
        kw = self._kw_weight(rng)
        return Plan(lambda: o.add_node(n, **kw), f"add_node({n!r}, **{kw})")

    def bn_add_nodes(self, ent, st, rng):
        o = ent.o
        ns = rng.sample(self.names, rng.randint(1, 3))
        if self.kind != "mn":
            lat = [rng.random() < 0.5 for _ in ns] if st["flag"] else (rng.random() < 0.3)
            kw = self._kw_weights(rng, len(ns))
            return Plan(lambda: o.add_nodes_from(ns, latent=lat, **kw), f"add_nodes_from({ns!r}, latent={lat}, **{kw})",
                        single=len(ns) == 1)
        kw = self._kw_weights(rng, len(ns))
        return Plan(lambda: o.add_nodes_from(ns, **kw), f"add_nodes_from({ns!r}, **{kw})", single=len(ns) == 1)

    def _bn_edge(self, ent, bad, m, rng):
        present, absent = self._present(ent), self._absent(ent)
        succ, reach = self._reach(ent)
        want = pick(["cycle", "cycle", "self", "selfnew", "cycle"], m) if bad else \
            pick(["valid", "valid", "valid", "new", "valid", "dup", "valid", "new"], m)
        cand = {
            "valid": [(u, w) for u in present for w in present if u != w and w not in succ[u] and u not in reach[w]],
            "cycle": [(u, w) for u in present for w in present if u != w and u in reach[w]],
            "self": [(u, u) for u in present],
            "selfnew": [(u, u) for u in absent],
            "dup": [(u, w) for u in present for w in succ[u]],
            "new": [(u, w) for u in (present + absent) for w in absent if u != w] +
                   [(w, u) for u in present for w in absent],
        }
        for mode in (want, "valid", "new", "self", "selfnew"):
            if cand[mode]:
                u, w = rng.choice(cand[mode])
                return u, w, mode
        return self.names[0], self.names[1], "new"

    def bn_add_edge(self, ent, st, rng):
        o = ent.o
        u, w, mode = self._bn_edge(ent, st["bad"], st["m"], rng)
        self.ctx.feature("edge:" + mode)
        kw = self._kw_weight(rng)
        if kw:
            self.ctx.feature("edge-weighted:" + mode)
        return Plan(lambda: o.add_edge(u, w, **kw), f"add_edge({u!r}, {w!r}, **{kw}) [{mode}]", info={"mode": mode})

    def bn_add_edges(self, ent, st, rng):
        o = ent.o
        eb, modes = [], []
        k = rng.randint(1, 4)
        badpos = rng.randrange(k)            # the invalid edge (if any) sits anywhere in the batch
        for j in range(k):
            u, w, mode = self._bn_edge(ent, st["bad"] and j == badpos, rng.randrange(1000), rng)
            eb.append((u, w))
            modes.append(mode)
        kw = self._kw_weights(rng, len(eb))
        if kw:
            for mode in modes:
                self.ctx.feature("edges-weighted:" + mode)
        return Plan(lambda: o.add_edges_from(eb, **kw), f"add_edges_from({eb!r}, **{kw}) {modes}", single=len(eb) == 1)

    def _unknown(self, ent, rng):
        absent = self._absent(ent)
        return rng.choice(absent) if absent and rng.random() < 0.6 else ("zz" if isinstance(self.names[0], str) else 99)

    def bn_remove_node(self, ent, st, rng):
        o = ent.o
        present = self._present(ent)
        n = self._unknown(ent, rng) if (st["bad"] or not present) else rng.choice(present)
        return Plan(lambda: o.remove_node(n), f"remove_node({n!r})", info={"i3": True, "op": "remove_node", "node": n})

    def bn_remove_nodes(self, ent, st, rng):
        o = ent.o
        present = self._present(ent)
        ns = rng.sample(present, min(len(present), rng.randint(1, 3))) if present else []
        if st["bad"] or not ns:
            ns = ns + [self._unknown(ent, rng)]
        return Plan(lambda: o.remove_nodes_from(ns), f"remove_nodes_from({ns!r})", single=len(ns) == 1,
                    info={"i3": True, "op": "remove_nodes", "nodes": ns})

    def _parents(self, ent, v):
        return sorted((nk(p) for p in ent.o._pred[v]), key=repr)

    def bn_add_cpd(self, ent, st, rng):
        o = ent.o
        present, absent = self._present(ent), self._absent(ent)
        if not present:
            v = self.names[0]
            c = self.make_cpd(v, [], rng)
            return Plan(lambda: o.add_cpds(c), f"add_cpds(P({v!r})) [variable not in model]")
        v = rng.choice(present)
        pa = self._parents(ent, v)
        rng.shuffle(pa)
        mode = "current"
        if st["bad"]:
            mode = pick(["foreign", "stale", "notcpd", "foreignvar", "stale"], st["m"])
        if mode == "foreign":
            pa = pa + [self._unknown(ent, rng)]
        elif mode == "stale":
            others = [x for x in present if x != v and x not in pa]
            if pa and (not others or rng.random() < 0.5):
                pa = pa[:-1]
            elif others:
                pa = pa + [rng.choice(others)]
        elif mode == "foreignvar":
            v, pa = self._unknown(ent, rng), []
        if mode == "notcpd":
            f = self.make_factor([v] + pa, rng) if rng.random() < 0.6 else "not a cpd"
            return Plan(lambda: o.add_cpds(f), f"add_cpds(<{type(f).__name__}>) [notcpd]")
        c = self.make_cpd(v, pa, rng)
        return Plan(lambda: o.add_cpds(c), f"add_cpds(P({v!r} | {pa!r})) [{mode}]")

    def bn_complete(self, ent, st, rng):
        o = ent.o
        cs = []
        for v in self._present(ent):
            pa = self._parents(ent, v)
            rng.shuffle(pa)
            cs.append(self.make_cpd(v, pa, rng))
        rng.shuffle(cs)
        return Plan(lambda: o.add_cpds(*cs), f"add_cpds(<{len(cs)} CPDs on current parents>)", single=len(cs) <= 1)

    @staticmethod
    def _sorted_tables(lst):
        """CPD / factor objects in a hash-seed independent order (DBN.copy orders its CPD list through sets)."""
        return sorted(lst, key=lambda c: (repr([nk(v) for v in c.variables]), read_table(c)["fp"]))

    def bn_remove_cpds(self, ent, st, rng):
        o = ent.o
        lst = self._sorted_tables(getattr(o, "cpds", []))
        present = self._present(ent)
        have = [nk(c.variable) for c in lst]
        mode = pick(["name", "object", "name", "multi"], st["m"])
        if st["bad"] or not lst:
            mode = pick(["unknown", "nocpd", "foreignobj"], st["m"])
        if mode == "name":
            v = rng.choice(have)
            return Plan(lambda: o.remove_cpds(v), f"remove_cpds({v!r}) [name]")
        if mode == "object":
            c = rng.choice(lst)
            return Plan(lambda: o.remove_cpds(c), f"remove_cpds(<CPD of {nk(c.variable)!r}>) [object]")
        if mode == "multi":
            vs = rng.sample(have, min(2, len(have)))
            return Plan(lambda: o.remove_cpds(*vs), f"remove_cpds(*{vs!r})", single=len(vs) == 1)
        if mode == "nocpd":
            no = [v for v in present if v not in have]
            if no:
                v = rng.choice(no)
                return Plan(lambda: o.remove_cpds(v), f"remove_cpds({v!r}) [node without CPD]")
            mode = "unknown"
        if mode == "foreignobj":
            c = self.make_cpd(self.names[0], [], rng)
            return Plan(lambda: o.remove_cpds(c), "remove_cpds(<CPD never added>)")
        v = self._unknown(ent, rng)
        return Plan(lambda: o.remove_cpds(v), f"remove_cpds({v!r}) [unknown node]")

    def bn_edit_cpd(self, ent, st, rng):
        """Aliasing probe: edit one CPD of the target in place through its public API (the handle a user gets
        from get_cpds); a copy that shares CPD objects with its source shows up as a change of the other model."""
        o = ent.o
        cands = [c for c in self._sorted_tables(getattr(o, "cpds", [])) if len(c.variables) > 1]
        if not cands:
            return Plan(lambda: len(o.get_cpds()), "get_cpds() [no CPD with parents to edit]", mut="read")
        c = rng.choice(cands)
        p = rng.choice(sorted(c.variables[1:], key=rk))
        return Plan(lambda: c.marginalize([p], inplace=True),
                    f"get_cpds({nk(c.variable)!r}).marginalize([{nk(p)!r}], inplace=True)")

    def _cpd_nodes(self, ent):
        """[(node, cpd object)] for graph nodes that own a CPD (first registered one), sorted by node."""
        out, seen = [], set()
        have = {repr(nk(n)) for n in ent.o._node}
        for c in getattr(ent.o, "cpds", []):
            v = nk(c.variable)
            if repr(v) in have and repr(v) not in seen:
                seen.add(repr(v))
                out.append((v, c))
        return sorted(out, key=lambda x: repr(x[0]))

    def bn_rewire(self, ent, st, rng):
        """Add or remove an edge INTO a node that already owns a CPD (its CPD becomes stale); the generator
        schedules a `reregister` step on the same object right after."""
        o = ent.o
        owners = self._cpd_nodes(ent)
        if not owners:
            return self.bn_add_edge(ent, st, rng)
        present = self._present(ent)
        succ, reach = self._reach(ent)
        rng.shuffle(owners)
        for v, c in owners:
            pa = self._parents(ent, v)
            if pa and st["flag"]:
                p = rng.choice(pa)
                return Plan(lambda: o.remove_edge(p, v), f"remove_edge({p!r}, {v!r}) [into CPD owner]")
            cand = [u for u in present if u != v and u not in pa and u not in reach[v]]
            if cand:
                u = rng.choice(cand)
                return Plan(lambda: o.add_edge(u, v), f"add_edge({u!r}, {v!r}) [into CPD owner]")
            if pa:
                p = rng.choice(pa)
                return Plan(lambda: o.remove_edge(p, v), f"remove_edge({p!r}, {v!r}) [into CPD owner]")
        return self.bn_add_edge(ent, st, rng)

    def bn_reregister(self, ent, st, rng):
        """add_cpds with a fresh CPD that is consistent with the node's CURRENT graph parents, for a node that
        already owns a CPD: preferably one whose parent set changed since, else the same parents in another order."""
        o = ent.o
        owners = self._cpd_nodes(ent)
        if not owners:
            return self.bn_add_cpd(ent, dict(st, bad=False), rng)
        changed = [(v, c) for v, c in owners if {repr(nk(x)) for x in c.variables[1:]} != {repr(p) for p in self._parents(ent, v)}]
        multi = [(v, c) for v, c in owners if len(self._parents(ent, v)) >= 2]
        if changed and (not multi or st["m"] % 4 != 0):
            v, c = rng.choice(changed)
            pa = self._parents(ent, v)
            rng.shuffle(pa)
            mode = "parent set changed"
        elif multi:
            v, c = rng.choice(multi)
            pa = self._parents(ent, v)
            old = [nk(x) for x in c.variables[1:]]
            rng.shuffle(pa)
            if pa == old:
                pa = pa[1:] + pa[:1]
            mode = "same parents, other order" if {repr(x) for x in old} == {repr(x) for x in pa} else "parent set changed"
        else:
            v, c = rng.choice(owners)
            pa = self._parents(ent, v)
            mode = "same scope"
        self.ctx.feature("reregister:" + mode)
        new = self.make_cpd(v, pa, rng)
        return Plan(lambda: o.add_cpds(new), f"add_cpds(P({v!r} | {pa!r})) [re-register, {mode}]")

    def bn_do(self, ent, st, rng):
        o = ent.o
        present = self._present(ent)
        inplace = st["flag"]
        if st["bad"] or not present:
            ns = [self._unknown(ent, rng)] + (rng.sample(present, 1) if present and rng.random() < 0.5 else [])
            arg = ns
        else:
            ns = rng.sample(present, min(len(present), rng.choice([1, 1, 2])))
            arg = ns[0] if len(ns) == 1 and rng.random() < 0.4 else ns
        return Plan(lambda: o.do(arg, inplace=inplace), f"do({arg!r}, inplace={inplace})",
                    mut="inplace" if inplace else "pure", new=not inplace,
                    info={"i3": True, "op": "do", "nodes": ns, "inplace": inplace})

    def bn_copy(self, ent, st, rng):
        o = ent.o
        return Plan(lambda: o.copy(), "copy()", mut="pure", new=True)

    def bn_random_cpds(self, ent, st, rng):
        o = ent.o
        inplace = st["flag"]
        present = self._present(ent)
        mode = pick(["int", "dict", "int", "none"], st["m"])
        if st["bad"]:
            mode = "baddict"
        if mode == "int":
            ns = rng.randint(1, 3)
        elif mode == "dict":
            ns = {v: self.cardof(v) for v in present}
        elif mode == "none":
            ns = None
        else:
            ns = {v: self.cardof(v) for v in present[1:]}
            ns[self._unknown(ent, rng)] = 2
        return Plan(lambda: o.get_random_cpds(n_states=ns, inplace=inplace),
                    f"get_random_cpds(n_states={ns!r}, inplace={inplace}) [{mode}]",
                    mut="inplace" if inplace else "pure", new=not inplace)

    def bn_check_model(self, ent, st, rng):
        o = ent.o
        return Plan(lambda: o.check_model(), "check_model()", mut="read")

    def bn_query(self, ent, st, rng):
        o = ent.o
        return Plan(lambda: len(o.get_cpds()), "get_cpds() / query", mut="read")

    def bn_get_cpds(self, ent, st, rng):
        o = ent.o
        present = self._present(ent)
        v = self._unknown(ent, rng) if (st["bad"] or not present) else rng.choice(present)
        return Plan(lambda: o.get_cpds(v), f"get_cpds({v!r})", mut="read")

    def plan_construct(self, ent, st, rng):
        from pgmpy.base import DAG
        from pgmpy.models import BayesianNetwork
        cls = BayesianNetwork if st["flag"] else DAG
        names = self.names[:]
        rng.shuffle(names)
        n = rng.randint(2, len(names))
        order = names[:n]
        eb = [(order[i], order[j]) for i in range(n) for j in range(i + 1, n) if rng.random() < 0.4]
        mode = "acyclic"
        if st["bad"]:
            mode = pick(["cycle", "self", "cycle2"], st["m"])
            if mode == "self":
                eb.insert(rng.randrange(len(eb) + 1), (order[0], order[0]))
            elif mode == "cycle2" or not eb:
                a, b = order[0], order[1]
                eb = [e for e in eb if e != (a, b)] + [(a, b), (b, a)]
            else:
                succ = {}
                for u, w in eb:
                    succ.setdefault(u, []).append(w)
                u, w = rng.choice(eb)
                # close a cycle through a path u -> ... -> x
                x, hops = w, 0
                while succ.get(x) and hops < 3 and rng.random() < 0.7:
                    x = rng.choice(succ[x])
                    hops += 1
                eb.append((x, u))
        rng.shuffle(eb)
        lat = rng.sample(order, rng.randint(0, 2)) if rng.random() < 0.5 else []
        self.ctx.feature("construct:" + mode)
        return Plan(lambda: cls(ebunch=eb, latents=lat), f"{cls.__name__}(ebunch={eb!r}, latents={lat!r}) [{mode}]",
                    mut="pure", new=True, info={"mode": mode})

    def bn_construct(self, ent, st, rng):
        return self.plan_construct(ent, st, rng)

    # ===== Markov network =====
    mn_add_node = bn_add_node
    mn_add_nodes = bn_add_nodes
    mn_remove_node = bn_remove_node
    mn_remove_nodes = bn_remove_nodes
    mn_copy = bn_copy
    mn_check_model = bn_check_model

    def _mn_edge(self, ent, bad, m, rng):
        present, absent = self._present(ent), self._absent(ent)
        adj = {nk(u): {nk(v) for v in nb} for u, nb in ent.o._adj.items()}
        want = pick(["self", "selfnew"], m) if bad else pick(["valid", "valid", "new", "valid", "dup"], m)
        cand = {
            "valid": [(u, w) for u in present for w in present if repr(u) < repr(w) and w not in adj[u]],
            "self": [(u, u) for u in present],
            "selfnew": [(u, u) for u in absent],
            "dup": [(u, w) for u in present for w in sorted(adj[u], key=repr) if u != w],
            "new": [(u, w) for u in (present + absent) for w in absent if u != w],
        }
        for mode in (want, "valid", "new", "dup", "self", "selfnew"):
            if cand[mode]:
                u, w = rng.choice(cand[mode])
                if rng.random() < 0.5:
                    u, w = w, u
                return u, w, mode
        return self.names[0], self.names[1], "new"

    def mn_add_edge(self, ent, st, rng):
        o = ent.o
        u, w, mode = self._mn_edge(ent, st["bad"], st["m"], rng)
        kw = self._kw_weight(rng)
        return Plan(lambda: o.add_edge(u, w, **kw), f"add_edge({u!r}, {w!r}, **{kw}) [{mode}]")

    def mn_add_edges(self, ent, st, rng):
        o = ent.o
        k = rng.randint(1, 4)
        badpos = rng.randrange(k)
        eb = [self._mn_edge(ent, st["bad"] and j == badpos, rng.randrange(1000), rng)[:2] for j in range(k)]
        kw = self._kw_weights(rng, len(eb))
        return Plan(lambda: o.add_edges_from(eb, **kw), f"add_edges_from({eb!r}, **{kw})", single=len(eb) == 1)

    def mn_add_factor(self, ent, st, rng):
        o = ent.o
        present = self._present(ent)
        if not present:
            f = self.make_factor([self.names[0]], rng)
            return Plan(lambda: o.add_factors(f), "add_factors(<factor on absent variable>)")
        vs = rng.sample(present, min(len(present), rng.randint(1, 3)))
        if self.kind == "mn" and len(vs) > 1 and rng.random() < 0.7:     # prefer scopes that are edges
            adj = {nk(u): sorted((nk(v) for v in nb), key=repr) for u, nb in o._adj.items()}
            u = vs[0]
            if adj.get(u):
                vs = [u, rng.choice(adj[u])]
        mode = "valid"
        if st["bad"]:
            mode = pick(["foreign", "notfactor"], st["m"])
        if mode == "foreign":
            vs = vs + [self._unknown(ent, rng)]
        if mode == "notfactor":
            return Plan(lambda: o.add_factors("not a factor"), "add_factors('not a factor')")
        f = self.make_factor(vs, rng)
        return Plan(lambda: o.add_factors(f), f"add_factors(phi({vs!r})) [{mode}]")

    def mn_remove_factors(self, ent, st, rng):
        o = ent.o
        lst = self._sorted_tables(o.factors)
        if st["bad"] or not lst:
            f = self.make_factor([self.names[0]] if self.kind == "mn" else list(self.names[0]), rng)
            return Plan(lambda: o.remove_factors(f), "remove_factors(<factor never added>)")
        f = rng.choice(lst)
        return Plan(lambda: o.remove_factors(f), f"remove_factors(phi({[nk(v) for v in f.variables]!r}))")

    def mn_edit_factor(self, ent, st, rng):
        """Aliasing probe: edit one factor of the target in place through its public API."""
        o = ent.o
        lst = self._sorted_tables(o.factors)
        if not lst:
            return Plan(lambda: len(o.get_factors()), "get_factors() [no factor to edit]", mut="read")
        f = rng.choice(lst)
        if len(f.variables) > 1 and st["flag"]:
            v = rng.choice(sorted(f.variables, key=rk))
            return Plan(lambda: f.marginalize([v], inplace=True),
                        f"<factor {[nk(x) for x in f.variables]!r}>.marginalize([{nk(v)!r}], inplace=True)")
        return Plan(lambda: f.normalize(inplace=True), f"<factor {[nk(x) for x in f.variables]!r}>.normalize(inplace=True)")

    def mn_query(self, ent, st, rng):
        o = ent.o
        return Plan(lambda: len(o.get_factors()), "get_factors() / query", mut="read")

    # ===== junction tree =====
    jt_copy = bn_copy
    jt_check_model = bn_check_model
    jt_remove_factors = mn_remove_factors
    jt_query = mn_query
    jt_edit_factor = mn_edit_factor

    def _jt_unknown(self, ent, rng):
        absent = self._absent(ent)
        return rng.choice(absent) if absent else ("zz", "zy")

    def jt_add_node(self, ent, st, rng):
        o = ent.o
        absent, present = self._absent(ent), self._present(ent)
        n = rng.choice(absent) if absent and (not present or rng.random() < 0.8) else rng.choice(present or self.names)
        if st["bad"]:
            arg = pick(["p", 7], st["m"])
            return Plan(lambda: o.add_node(arg), f"add_node({arg!r}) [not a clique]")
        arg = list(n) if st["flag"] else n
        kw = self._kw_weight(rng)
        return Plan(lambda: o.add_node(arg, **kw), f"add_node({arg!r}, **{kw})")

    def jt_add_nodes(self, ent, st, rng):
        o = ent.o
        ns = rng.sample(self.names, rng.randint(1, 3))
        if st["bad"]:
            ns = ns + ["p"]
        kw = self._kw_weight(rng, 0.25)          # ClusterGraph.add_nodes_from(nodes, **kwargs) hands kwargs to add_node
        return Plan(lambda: o.add_nodes_from(ns, **kw), f"add_nodes_from({ns!r}, **{kw})", single=len(ns) == 1)

    def _jt_edge(self, ent, bad, m, rng):
        present, absent = self._present(ent), self._absent(ent)
        adj = {nk(u): {nk(v) for v in nb} for u, nb in ent.o._adj.items()}
        comp = {}
        for s in sorted(adj, key=repr):
            if s in comp:
                continue
            comp[s] = s
            stack = [s]
            while stack:
                x = stack.pop()
                for y in adj[x]:
                    if y not in comp:
                        comp[y] = s
                        stack.append(y)
        want = pick(["cycle", "disjoint", "self", "selfnew", "cycle", "list"], m) if bad else \
            pick(["valid", "valid", "new", "valid", "new"], m)
        allc = present + absent
        cand = {
            "valid": [(u, w) for u in present for w in present
                      if repr(u) < repr(w) and comp[u] != comp[w] and set(u) & set(w)],
            "cycle": [(u, w) for u in present for w in present if u != w and comp[u] == comp[w] and set(u) & set(w)],
            "disjoint": [(u, w) for u in allc for w in allc if u != w and not (set(u) & set(w))],
            "self": [(u, u) for u in present],
            "selfnew": [(u, u) for u in absent],
            "new": [(u, w) for u in allc for w in absent if u != w and set(u) & set(w)],
            "list": [(u, w) for u in allc for w in allc if u != w and set(u) & set(w)],
        }
        for mode in (want, "valid", "new", "cycle", "self", "selfnew"):
            if cand[mode]:
                u, w = rng.choice(cand[mode])
                if rng.random() < 0.5:
                    u, w = w, u
                return u, w, mode
        return self.names[0], self.names[0], "selfnew"

    def jt_add_edge(self, ent, st, rng):
        o = ent.o
        u, w, mode = self._jt_edge(ent, st["bad"], st["m"], rng)
        self.ctx.feature("jt-edge:" + mode)
        if mode == "list":
            u = list(u)
        kw = self._kw_weight(rng)
        return Plan(lambda: o.add_edge(u, w, **kw), f"add_edge({u!r}, {w!r}, **{kw}) [{mode}]",
                    info={"mode": mode, "selfnew": mode == "selfnew"})

    def jt_add_edges(self, ent, st, rng):
        o = ent.o
        k = rng.randint(1, 3)
        badpos = rng.randrange(k)
        eb, selfnew = [], False
        for j in range(k):
            u, w, mode = self._jt_edge(ent, st["bad"] and j == badpos, rng.randrange(1000), rng)
            selfnew = selfnew or mode == "selfnew"
            eb.append((u, w))
        kw = self._kw_weights(rng, len(eb))
        return Plan(lambda: o.add_edges_from(eb, **kw), f"add_edges_from({eb!r}, **{kw})", single=len(eb) == 1,
                    info={"selfnew": selfnew})

    def jt_remove_node(self, ent, st, rng):
        o = ent.o
        present = self._present(ent)
        n = self._jt_unknown(ent, rng) if (st["bad"] or not present) else rng.choice(present)
        return Plan(lambda: o.remove_node(n), f"remove_node({n!r})")

    def jt_remove_nodes(self, ent, st, rng):
        o = ent.o
        present = self._present(ent)
        ns = rng.sample(present, min(len(present), rng.randint(1, 3))) if present else []
        if st["bad"] or not ns:
            ns = ns + [self._jt_unknown(ent, rng)]
        return Plan(lambda: o.remove_nodes_from(ns), f"remove_nodes_from({ns!r})", single=len(ns) == 1)

    def jt_add_factor(self, ent, st, rng):
        o = ent.o
        present = self._present(ent)
        if st["bad"] or not present:
            vs = list(self._jt_unknown(ent, rng))
            f = self.make_factor(vs, rng)
            return Plan(lambda: o.add_factors(f), f"add_factors(phi({vs!r})) [no such clique]")
        vs = list(rng.choice(present))
        rng.shuffle(vs)
        f = self.make_factor(vs, rng)
        return Plan(lambda: o.add_factors(f), f"add_factors(phi({vs!r}))")

    # ===== dynamic Bayesian network =====
    dbn_copy = bn_copy
    dbn_check_model = bn_check_model
    dbn_edit_cpd = bn_edit_cpd

    def _dbn_names(self, ent):
        return sorted({nk(n)[0] for n in ent.o._node}, key=repr)

    def dbn_add_node(self, ent, st, rng):
        o = ent.o
        n = rng.choice(self.names)
        kw = self._kw_weight(rng)                 # DBN.add_node(node, **attr) -> DAG.add_node(weight=, latent=)
        if st["flag"] and rng.random() < 0.4:
            kw["latent"] = True
        return Plan(lambda: o.add_node(n, **kw), f"add_node({n!r}, **{kw})")

    def dbn_add_nodes(self, ent, st, rng):
        o = ent.o
        ns = rng.sample(self.names, rng.randint(1, 3))
        return Plan(lambda: o.add_nodes_from(ns), f"add_nodes_from({ns!r})", single=len(ns) == 1)

    def _dbn_edge(self, ent, bad, m, rng):
        succ, reach = self._reach(ent)
        names = self.names
        have0 = [n for n in names if (n, 0) in succ]
        want = pick(["cycle", "cycle", "self", "backward", "gap", "malformed", "cycle"], m) if bad else \
            pick(["intra", "intra", "inter", "intra", "inter", "intra1", "inter12", "newname"], m)
        if want in ("intra", "intra1"):
            cand = [(u, w) for u in names for w in names if u != w
                    and not ((u, 0) in succ and (w, 0) in succ[(u, 0)])
                    and not ((w, 0) in reach and (u, 0) in reach[(w, 0)])]
            if cand:
                u, w = rng.choice(cand)
                s = 1 if want == "intra1" else 0
                return (u, s), (w, s), want
            want = "inter"
        if want == "cycle":
            cand = [(u, w) for u in have0 for w in have0 if u != w and (u, 0) in reach[(w, 0)]]
            if cand:
                u, w = rng.choice(cand)
                s = rng.choice([0, 1])
                return (u, s), (w, s), "cycle"
            want = "self"
        if want == "self":
            u = rng.choice(names)
            s = rng.choice([0, 1])
            return (u, s), (u, s), "self"
        if want == "backward":
            return (rng.choice(names), 1), (rng.choice(names), 0), "backward"
        if want == "gap":
            return (rng.choice(names), 0), (rng.choice(names), 2), "gap"
        if want == "malformed":
            u, w = rng.choice(names), rng.choice(names)
            return pick([((u,), (w, 0)), ((u, 0, 1), (w, 0)), (u, w), ((u, "0"), (w, "0")), ((u, 0), 5)], m // 7) + ("malformed",)
        if want == "newname":
            return (rng.choice(names), 0), ("N", rng.choice([0, 1])), "newname"
        u, w = rng.choice(names), rng.choice(names)
        return ((u, 1), (w, 2), "inter12") if want == "inter12" else ((u, 0), (w, 1), "inter")

    def dbn_add_edge(self, ent, st, rng):
        o = ent.o
        u, w, mode = self._dbn_edge(ent, st["bad"], st["m"], rng)
        self.ctx.feature("dbn-edge:" + mode)
        kw = self._kw_weight(rng)
        return Plan(lambda: o.add_edge(u, w, **kw), f"add_edge({u!r}, {w!r}, **{kw}) [{mode}]", info={"mode": mode})

    def dbn_add_edges(self, ent, st, rng):
        o = ent.o
        k = rng.randint(1, 4)
        badpos = rng.randrange(k)
        eb = [self._dbn_edge(ent, st["bad"] and j == badpos, rng.randrange(1000), rng)[:2] for j in range(k)]
        kw = self._kw_weights(rng, len(eb), 0.3)   # DBN.add_edges_from(ebunch, **kwargs) accepts and ignores them
        return Plan(lambda: o.add_edges_from(eb, **kw), f"add_edges_from({eb!r}, **{kw})", single=len(eb) == 1)

    def _dbn_unknown(self, ent, rng):
        have = {repr(nk(n)) for n in ent.o._node}
        cand = [(n, s) for n in self.names for s in (0, 1) if repr((n, s)) not in have]
        return rng.choice(cand) if cand and rng.random() < 0.7 else ("zz", 0)

    def dbn_remove_node(self, ent, st, rng):
        o = ent.o
        present = self._present(ent)
        n = self._dbn_unknown(ent, rng) if (st["bad"] or not present) else rng.choice(present)
        return Plan(lambda: o.remove_node(n), f"remove_node({n!r})", info={"i3": True, "op": "remove_node", "node": n})

    def dbn_remove_nodes(self, ent, st, rng):
        o = ent.o
        present = self._present(ent)
        ns = rng.sample(present, min(len(present), rng.randint(1, 2))) if present else []
        if st["bad"] or not ns:
            ns = ns + [self._dbn_unknown(ent, rng)]
        return Plan(lambda: o.remove_nodes_from(ns), f"remove_nodes_from({ns!r})", single=len(ns) == 1,
                    info={"i3": True, "op": "remove_nodes", "nodes": ns})

    def dbn_add_cpd(self, ent, st, rng):
        o = ent.o
        present = self._present(ent)
        if not present:
            c = self.make_cpd((self.names[0], 0), [], rng)
            return Plan(lambda: o.add_cpds(c), "add_cpds(<CPD on absent node>)")
        have = {repr(nk(c.variable)) for c in o.cpds}
        fresh = [v for v in present if repr(v) not in have]
        v = rng.choice(fresh) if fresh and rng.random() < 0.85 else rng.choice(present)
        pa = self._parents(ent, v)
        rng.shuffle(pa)
        mode = "current"
        if st["bad"]:
            mode = pick(["foreign", "notcpd", "stale"], st["m"])
        if mode == "foreign":
            pa = pa + [self._dbn_unknown(ent, rng)]
        elif mode == "stale":
            others = [x for x in present if x != v and x not in pa]
            if pa:
                pa = pa[:-1]
            elif others:
                pa = [rng.choice(others)]
        if mode == "notcpd":
            f = self.make_factor([v] + pa, rng)
            return Plan(lambda: o.add_cpds(f), "add_cpds(<DiscreteFactor>) [notcpd]")
        c = self.make_cpd(v, pa, rng)
        return Plan(lambda: o.add_cpds(c), f"add_cpds(P({v!r} | {pa!r})) [{mode}]")

    def dbn_complete(self, ent, st, rng):
        o = ent.o
        have = {repr(nk(c.variable)) for c in o.cpds}
        cs = []
        for v in self._present(ent):
            if repr(v) in have:
                continue
            pa = self._parents(ent, v)
            rng.shuffle(pa)
            cs.append(self.make_cpd(v, pa, rng))
        return Plan(lambda: o.add_cpds(*cs), f"add_cpds(<{len(cs)} CPDs on current parents>)", single=len(cs) <= 1)

    def dbn_remove_cpds(self, ent, st, rng):
        o = ent.o
        lst = self._sorted_tables(o.cpds)
        present = self._present(ent)
        have = [nk(c.variable) for c in lst]
        mode = pick(["name", "object", "name", "multi"], st["m"])
        if st["bad"] or not lst:
            mode = pick(["unknown", "nocpd", "foreignobj"], st["m"])
        if mode == "name":
            v = rng.choice(have)
            return Plan(lambda: o.remove_cpds(v), f"remove_cpds({v!r}) [name]")
        if mode == "object":
            c = rng.choice(lst)
            return Plan(lambda: o.remove_cpds(c), f"remove_cpds(<CPD of {nk(c.variable)!r}>) [object]")
        if mode == "multi":
            vs = rng.sample(have, min(2, len(have)))
            return Plan(lambda: o.remove_cpds(*vs), f"remove_cpds(*{vs!r})", single=len(vs) == 1)
        if mode == "nocpd":
            no = [v for v in present if v not in have]
            if no:
                v = rng.choice(no)
                return Plan(lambda: o.remove_cpds(v), f"remove_cpds({v!r}) [node without CPD]")
            mode = "unknown"
        if mode == "foreignobj":
            c = self.make_cpd((self.names[0], 0), [], rng)
            return Plan(lambda: o.remove_cpds(c), "remove_cpds(<CPD never added>)")
        v = self._dbn_unknown(ent, rng)
        return Plan(lambda: o.remove_cpds(v), f"remove_cpds({v!r}) [unknown node]")

    def dbn_do(self, ent, st, rng):
        o = ent.o
        present = self._present(ent)
        inplace = st["flag"]
        if st["bad"] or not present:
            ns = [self._dbn_unknown(ent, rng)]
        else:
            ns = rng.sample(present, min(len(present), rng.choice([1, 1, 2])))
        return Plan(lambda: o.do(ns, inplace=inplace), f"do({ns!r}, inplace={inplace})",
                    mut="inplace" if inplace else "pure", new=not inplace,
                    info={"i3": True, "op": "do", "nodes": ns, "inplace": inplace})

    def dbn_get_cpds(self, ent, st, rng):
        o = ent.o
        present = self._present(ent)
        mode = pick(["all", "node", "slice0", "node"], st["m"])
        if st["bad"]:
            v = self._dbn_unknown(ent, rng)
            return Plan(lambda: o.get_cpds(v), f"get_cpds({v!r}) [unknown]", mut="read")
        if mode == "node" and present:
            v = rng.choice(present)
            return Plan(lambda: o.get_cpds(v), f"get_cpds({v!r})", mut="read")
        if mode == "slice0":
            return Plan(lambda: len(o.get_cpds(time_slice=0)), "get_cpds(time_slice=0)", mut="read")
        return Plan(lambda: len(o.get_cpds()), "get_cpds()", mut="read")
