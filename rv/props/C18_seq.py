"""C18 helper: "object reused across edits and queries" workloads.

closure_seq  one or two Independencies objects are built INCREMENTALLY (constructor + add_assertions in 2-3
             batches, optionally reduce()), interleaved with closure() / entails() / is_equivalent() (the live
             object as receiver and as argument).  Every answer is judged against the reference semi-graphoid
             closure of the assertions present in the object AT THAT MOMENT.  Returned closure objects are mutated
             and later answers must not change.
jpd_seq      one JointProbabilityDistribution object serves a shuffled sequence of check_independence (three
             modes) / get_independencies / minimal_imap / is_imap / marginal_distribution(inplace=False) /
             conditional_distribution(inplace=False) / copy / to_factor calls; every answer is judged against the
             table the object was built from.
"""
import itertools

import numpy as np

from rv import gen, oracle


def _c18():
    from rv.props import C18
    return C18


# ====================================================================== closure_seq: generation
def gen_closure_seq(rng, bs, tier):
    C = _c18()
    n = rng.choice((4, 4, 4, 5)) if tier == "quick" else rng.choice((4, 4, 5, 5))
    names = list(rng.choice([["a", "b", "c", "d", "e"], ["x1", "x2", "x3", "x4", "x5"],
                             ["W", "X", "Y", "Z", "T"], ["rain", "wet", "slip", "sun", "ice"]])[:n])
    U = C.universe_assertions(names) if n == 4 else None

    def rand_a():
        return C.rand_assertion(rng, names, 4)

    def batches_for():
        mode = rng.choice(["contraction", "contraction", "disjoint", "random", "random", "union"])
        vs = rng.sample(names, 4)
        X, W, Y, Z = vs
        if mode == "contraction":
            # the rule becomes applicable only when the second batch arrives
            b = [[C.canon([X], [W], [Y, Z])], [C.canon([X], [Y], [Z])]]
            if rng.random() < 0.5:
                b.reverse()
        elif mode == "disjoint":
            b = [[C.canon([X], [Y, W], [Z])], [C.canon([Z], [W], [])]]
        elif mode == "union":
            b = [[C.canon([X], [Y], [Z])], [C.canon([X], [W], [Y, Z])], [C.canon([Y], [W], [])]]
        else:
            b = [[rand_a() for _ in range(rng.randint(1, 2))] for _ in range(rng.randint(2, 3))]
        if rng.random() < 0.4:
            b[rng.randrange(len(b))].append(rand_a())
        if len(b) == 2 and rng.random() < 0.4:
            b.append([rand_a()])
        if rng.random() < 0.2:
            b.insert(0, [])                                  # object starts empty
        return b

    objs = {"A": batches_for()}
    if rng.random() < 0.6:
        objs["B"] = batches_for()
    state = {o: [] for o in objs}
    nxt = {o: 0 for o in objs}
    final = {o: [a for b in objs[o] for a in b] for o in objs}
    ops = []

    def interesting(o):
        """statements whose truth changes over the object's life, plus some of the current closure and foreign ones"""
        cur = C.sg_closure(state[o])
        fin = C.sg_closure(final[o])
        late = sorted(fin - cur)
        pool = []
        if late:
            pool += rng.sample(late, min(2, len(late)))
        if cur:
            pool.append(rng.choice(sorted(cur)))
        pool.append(rand_a())
        return pool

    def queries(o):
        k = rng.randint(2, 4)
        kinds = rng.sample(["closure", "entails", "entails", "iseq_same", "iseq_same_rev", "iseq_prefix", "pair",
                            "mutate"], k)
        for q in kinds:
            if q == "closure":
                ops.append(["closure", o])
            elif q == "entails":
                pool = interesting(o)
                T = rng.sample(pool, rng.randint(1, min(2, len(pool))))
                ops.append(["entails", o, [list(map(list, t)) for t in T]])
            elif q == "iseq_same":
                ops.append(["iseq_fresh", o, [list(map(list, t)) for t in state[o]]])
            elif q == "iseq_same_rev":
                ops.append(["iseq_fresh_rev", o, [list(map(list, t)) for t in state[o]]])
            elif q == "iseq_prefix":
                # the assertions of an earlier (or the final) stage of this object
                k2 = rng.randint(0, len(objs[o]))
                T = [a for b in objs[o][:k2] for a in b]
                ops.append([rng.choice(["iseq_fresh", "iseq_fresh_rev"]), o, [list(map(list, t)) for t in T]])
            elif q == "pair" and len(objs) == 2:
                other = "B" if o == "A" else "A"
                ops.append([rng.choice(["iseq_obj", "entails_obj"]), o, other])
            elif q == "mutate":
                ops.append(["mutate_closure", o, [list(map(list, rand_a())) for _ in range(3)]])

    order = list(objs)
    # interleave: each object alternates add / queries until its batches are used up
    while any(nxt[o] < len(objs[o]) for o in objs):
        o = rng.choice([o for o in order if nxt[o] < len(objs[o])])
        ops.append(["add", o, nxt[o]])
        state[o] = state[o] + objs[o][nxt[o]]
        nxt[o] += 1
        if rng.random() < 0.15:
            ops.append(["reduce", o])
        queries(o)
        if len(objs) == 2 and rng.random() < 0.5:
            queries("B" if o == "A" else "A")
    for o in order:
        ops.append(["closure", o])
    return {"kind": "closure_seq", "universe": names, "build_seed": bs,
            "objects": {o: [[list(map(list, a)) for a in b] for b in objs[o]] for o in objs}, "ops": ops}


# ====================================================================== closure_seq: run
def run_closure_seq(spec, ctx):
    import random
    from pgmpy.independencies import Independencies
    C = _c18()
    rng = random.Random(spec["build_seed"])
    batches = {o: [C._tt(b) for b in bs] for o, bs in spec["objects"].items()}
    present = {o: [] for o in batches}            # assertions in the object right now
    history = {o: [[]] for o in batches}          # earlier contents (for the stale-state classifier)
    live = {}
    memo = {}
    digest = []
    nontrivial = False

    def clo(S, guard="exact"):
        k = (frozenset(C.canon(*s) for s in S), guard)
        if k not in memo:
            memo[k] = C.sg_closure(list(S), guard=guard)
        return memo[k]

    def desc(S):
        return "{" + "; ".join(C._fmt(s) for s in S) + "}"

    def entail_pred(S, T, guard):
        cl = clo(S, guard)
        return all(C.canon(*t) in cl for t in T)

    def equiv_pred(S, T, guard):
        # what mutual entailment answers under the given contraction guard
        return entail_pred(S, T, guard) and entail_pred(T, S, guard)

    def classify(kind, got, pred, variants):
        """variants: list of (S-version, T-version) from the objects' histories (current ones excluded).
        known key if the defect model on the CURRENT contents explains the answer; stale key if an EARLIER content
        of a live object explains it; generic otherwise."""
        if got == pred("proper-subsets", None):
            return "c18:closure-contraction-guard"
        for v in variants:
            if got == pred("exact", v) or got == pred("proper-subsets", v):
                return "c18:stale-answer-after-edit"
        return {"closure": "c18:wrong-closure", "entails": "c18:wrong-entails",
                "iseq": "c18:wrong-is-equivalent"}[kind]

    def get(o):
        if o not in live:
            r = ctx.call(Independencies)
            if ctx.failed(r):
                ctx.violation(f"c18:exception:{r.type}@{r.where}", f"Independencies() raised {r!r}")
                return None
            live[o] = r
        return live[o]

    def fresh(T):
        r = ctx.call(C._build_ind, T, rng)
        if ctx.failed(r):
            ctx.violation(f"c18:exception:{r.type}@{r.where}", f"Independencies(...) raised {r!r}")
            return None
        return r

    for step, op in enumerate(spec["ops"]):
        kind, o = op[0], op[1]
        where = f"step {step} on object {o} (built by {len(history[o]) - 1} add(s), now {desc(present[o])})"
        if kind == "add":
            b = batches[o][op[2]]
            if o not in live and rng.random() < 0.5:
                r = ctx.call(C._build_ind, b, rng)                   # first batch through the constructor
                if ctx.failed(r):
                    ctx.violation(f"c18:exception:{r.type}@{r.where}", f"Independencies(...) raised {r!r}")
                    return
                live[o] = r
            else:
                ind = get(o)
                if ind is None:
                    return
                tmp = ctx.call(C._build_ind, b, rng)                 # hostile argument forms, then hand them over
                if ctx.failed(tmp):
                    ctx.violation(f"c18:exception:{tmp.type}@{tmp.where}", f"Independencies(...) raised {tmp!r}")
                    return
                r = ctx.call(ind.add_assertions, *list(tmp.get_assertions()))
                if ctx.failed(r):
                    ctx.violation(f"c18:exception:{r.type}@{r.where}", f"add_assertions raised {r!r} at {where}")
                    return
            present[o] = present[o] + list(b)
            history[o].append(list(present[o]))
            continue
        ind = get(o)
        if ind is None:
            return
        S = present[o]
        olds = [h for h in history[o][:-1] if frozenset(map(lambda t: C.canon(*t), h)) !=
                frozenset(map(lambda t: C.canon(*t), S))]
        if kind == "reduce":
            r = ctx.call(ind.reduce)
            if ctx.failed(r):
                ctx.note("seq:reduce-raised")
            continue
        if kind in ("closure", "mutate_closure"):
            r = ctx.call(ind.closure)
            if ctx.failed(r):
                ctx.violation(f"c18:exception:{r.type}@{r.where}", f"closure raised {r!r} at {where}")
                continue
            try:
                P = C._read_ind(r)
            except Exception as e:
                ctx.violation("c18:malformed-result", f"cannot read closure: {type(e).__name__}: {e}")
                continue
            R = clo(S)
            digest.append(sorted(P))
            if len(R) > len({C.canon(*s) for s in S}):
                nontrivial = True
            if P == R:
                ctx.ok()
            else:
                key = classify("closure", P, lambda g, v: clo(S if v is None else v, g), olds)
                extra, missing = sorted(P - R), sorted(R - P)
                ctx.violation(key, f"closure() at {where}: {len(extra)} statement(s) not derivable from the assertions "
                              f"present {[C._fmt(t) for t in extra[:4]]}, {len(missing)} derivable statement(s) absent "
                              f"{[C._fmt(t) for t in missing[:4]]}", ops=spec["ops"][:step + 1])
            if kind == "mutate_closure":
                # the caller owns the returned object: adding to it must not leak into the source object
                both = R | clo(S, "proper-subsets")
                foreign = [t for t in C._tt(op[2]) if C.canon(*t) not in both]
                if foreign:
                    tmp = ctx.call(C._build_ind, foreign[:1], rng)
                    if not ctx.failed(tmp):
                        ctx.call(r.add_assertions, *list(tmp.get_assertions()))
                        ctx.note("seq:returned-closure-mutated")
                        r2 = ctx.call(ind.closure)
                        if ctx.failed(r2):
                            ctx.violation(f"c18:exception:{r2.type}@{r2.where}", f"closure raised {r2!r} at {where}")
                            continue
                        try:
                            P2 = C._read_ind(r2)
                        except Exception as e:
                            ctx.violation("c18:malformed-result", f"cannot read closure: {type(e).__name__}: {e}")
                            continue
                        if P2 == P:
                            ctx.ok()
                        else:
                            ctx.violation("c18:returned-closure-aliased",
                                          f"after add_assertions({C._fmt(foreign[0])}) on the object RETURNED by closure(), "
                                          f"closure() of the source object changed: now also/no longer contains "
                                          f"{[C._fmt(t) for t in sorted(P2 ^ P)[:4]]} ({where})")
            continue
        if kind == "entails":
            T = C._tt(op[2])
            indT = fresh(T)
            if indT is None:
                continue
            r = ctx.call(ind.entails, indT)
            if ctx.failed(r):
                ctx.violation(f"c18:exception:{r.type}@{r.where}", f"entails raised {r!r} at {where}")
                continue
            got, want = bool(r), entail_pred(S, T, "exact")
            digest.append(got)
            if got == want:
                ctx.ok()
            else:
                key = classify("entails", got, lambda g, v: entail_pred(S if v is None else v, T, g), olds)
                ctx.violation(key, f"entails({desc(T)}) -> {got} at {where}; the closure of the assertions present says "
                              f"{want}", ops=spec["ops"][:step + 1])
            continue
        if kind in ("iseq_fresh", "iseq_fresh_rev"):
            T = C._tt(op[2])
            indT = fresh(T)
            if indT is None:
                continue
            if kind == "iseq_fresh":
                r = ctx.call(ind.is_equivalent, indT)
                label = f"is_equivalent(fresh {desc(T)})"
            else:
                r = ctx.call(indT.is_equivalent, ind)
                label = f"(fresh {desc(T)}).is_equivalent(object)"
            if ctx.failed(r):
                ctx.violation(f"c18:exception:{r.type}@{r.where}", f"{label} raised {r!r} at {where}")
                continue
            got, want = bool(r), clo(S) == clo(T)
            digest.append(got)
            if got == want:
                ctx.ok()
            else:
                key = classify("iseq", got, lambda g, v: equiv_pred(S if v is None else v, T, g), olds)
                ctx.violation(key, f"{label} -> {got} at {where}; closures of the assertions present are "
                              f"{'equal' if want else 'different'}", ops=spec["ops"][:step + 1])
            continue
        if kind in ("iseq_obj", "entails_obj"):
            o2 = op[2]
            ind2 = get(o2)
            if ind2 is None:
                continue
            T = present[o2]
            olds2 = [h for h in history[o2][:-1]]
            if kind == "iseq_obj":
                r = ctx.call(ind.is_equivalent, ind2)
                want = clo(S) == clo(T)
                pred = lambda g, v: equiv_pred(S if v is None else v[0], T if v is None else v[1], g)   # noqa: E731
            else:
                r = ctx.call(ind.entails, ind2)
                want = entail_pred(S, T, "exact")
                pred = lambda g, v: entail_pred(S if v is None else v[0], T if v is None else v[1], g)  # noqa: E731
            label = f"{'is_equivalent' if kind == 'iseq_obj' else 'entails'}(live object {o2} = {desc(T)})"
            if ctx.failed(r):
                ctx.violation(f"c18:exception:{r.type}@{r.where}", f"{label} raised {r!r} at {where}")
                continue
            got = bool(r)
            digest.append(got)
            if got == want:
                ctx.ok()
            else:
                variants = [(a, b) for a in history[o] for b in history[o2]][:-1]
                kk = classify("iseq" if kind == "iseq_obj" else "entails", got, pred, variants)
                ctx.violation(kk, f"{label} -> {got} at {where}; the closures of the assertions present say {want}",
                              ops=spec["ops"][:step + 1])
            continue
        raise ValueError(kind)
    ctx.nontrivial = nontrivial and sum(1 for op in spec["ops"] if op[0] == "add") >= 2
    ctx.feature(f"closure_seq:universe{len(spec['universe'])}")
    ctx.feature(f"closure_seq:objects{len(batches)}")
    ctx.xcell["closure_seq"] = gen.spec_digest(digest)


# ====================================================================== jpd_seq: generation
def gen_jpd_seq(rng, bs, tier):
    C = _c18()
    n = rng.choice((3, 3, 4, 4)) if tier == "quick" else rng.choice((3, 4, 4, 4, 5))
    flavor = rng.choice(["bn", "bn", "bn", "bn_zero", "context", "context", "parity", "product", "generic",
                         "uniform_mix"])
    names, card, J, flavor, bn = C.rand_joint(rng, n, flavor)
    alt = None
    if bn is not None and rng.random() < 0.6:
        alt = gen.rand_bn_spec(rng, n=n, cards=(2,), kind="id", names=names, zeros=False, max_parents=3, min_card=2)
        alt["card"] = dict(bn["card"])
        alt["states"] = dict(bn["states"])
        for v in alt["nodes"]:
            pa = alt["cpds"][v]["parents"]
            q = 1
            for p in pa:
                q *= alt["card"][p]
            alt["cpds"][v] = {"parents": pa, "table": gen.rand_cpt(rng, alt["card"][v], q, zeros=False)}
    perm = list(range(n))
    rng.shuffle(perm)
    vars_ = [names[p] for p in perm]
    card = [card[p] for p in perm]
    J = np.transpose(J, perm)

    def positive_ctx(Z):
        axes = [vars_.index(z) for z in Z]
        opts = []
        for vals in itertools.product(*[range(card[i]) for i in axes]):
            sl = [slice(None)] * n
            for i, s in zip(axes, vals):
                sl[i] = s
            if J[tuple(sl)].sum() >= 1e-6:
                opts.append([[z, int(s)] for z, s in zip(Z, vals)])
        return rng.choice(opts) if opts else None

    ops = []
    m = rng.randint(14, 26)
    for _ in range(m):
        kind = rng.choice(["ci", "ci", "ci", "ci_ctx", "ci_ctx", "ci_ctx", "gi", "gi_ctx", "imap", "is_imap", "aux",
                           "aux"])
        x, y = rng.sample(vars_, 2)
        rest = [v for v in vars_ if v not in (x, y)]
        if kind == "ci":
            Z = rng.sample(rest, rng.randint(0, len(rest)))
            ops.append(["ci", x, y, Z, rng.random() < 0.4])
        elif kind == "ci_ctx":
            Z = rng.sample(rest, rng.randint(1, min(2, len(rest))))
            c = positive_ctx(Z)
            if c:
                ops.append(["ci_ctx", x, y, c])
        elif kind == "gi":
            ops.append(["gi", None])
        elif kind == "gi_ctx":
            c = positive_ctx([rng.choice(vars_)])
            if c and n >= 3:
                ops.append(["gi", c])
        elif kind == "imap":
            o = sorted(vars_)
            rng.shuffle(o)
            ops.append(["imap", o])
        elif kind == "is_imap":
            if bn is not None:
                ops.append(["is_imap", "own" if (alt is None or rng.random() < 0.5) else "alt", rng.random() < 0.5])
        else:
            sub = rng.choice(["marg", "cond", "copy", "to_factor"])
            if sub == "marg":
                ops.append(["aux", "marg", rng.sample(vars_, rng.randint(1, n - 1))])
            elif sub == "cond":
                c = positive_ctx([rng.choice(vars_)])
                if c:
                    ops.append(["aux", "cond", c])
            else:
                ops.append(["aux", sub, None])
    # always end with a sweep of plain questions about the ORIGINAL table
    for x, y in list(itertools.combinations(vars_, 2))[:4]:
        ops.append(["ci", x, y, [], False])
    z = rng.choice(vars_)
    others = [v for v in vars_ if v != z]
    ops.append(["ci", others[0], others[1], [z], False])
    ops.append(["gi", None])
    return {"kind": "jpd_seq", "vars": vars_, "card": card, "table": J.tolist(), "flavor": flavor, "bn": bn,
            "alt": alt, "ops": ops, "build_seed": bs}


# ====================================================================== jpd_seq: run
def run_jpd_seq(spec, ctx):
    import random
    from rv import build
    C = _c18()
    names, card = spec["vars"], spec["card"]
    n = len(names)
    J, jpd = C._jpd(spec)
    base = sorted(names)
    triples = C._all_triples(base)
    cache = {}

    def st(A, B, Cs):
        k = (frozenset(A), frozenset(B), frozenset(Cs))
        if k not in cache:
            cache[k] = cache[(k[1], k[0], k[2])] = C.ci_status(J, names, k[0], k[1], k[2])
        return cache[k]

    def conditional(c):
        sl = [slice(None)] * n
        for z, s in c:
            sl[names.index(z)] = s
        Jc = J[tuple(sl)]
        keep = [v for v in names if v not in [z for z, _ in c]]
        return Jc / Jc.sum(), keep

    models = {}

    def model(which):
        if which not in models:
            b = spec["bn"] if which == "own" else spec["alt"]
            models[which] = ctx.call(build.bayesian_network, b, random.Random(spec["build_seed"] + 1))
        return models[which]

    answers, agg, digest = [], {}, []
    seen = {"holds": 0, "fails": 0, "ambiguous": 0}
    hist = []

    def judge(label, r, s):
        if ctx.failed(r):
            answers.append("E")
            return ctx.violation(f"c18:exception:{r.type}@{r.where}", f"{label} raised {r!r}", earlier_calls=hist[-6:])
        got = bool(r)
        answers.append("1" if got else "0")
        seen[s] += 1
        if s == "ambiguous":
            return ctx.note("indep:not-judged-near-tolerance")
        ctx.expect(got == (s == "holds"), "c18:wrong-independence-verdict",
                   f"{label} -> {got} but the independence {s} in the table the object was built from "
                   f"(call #{len(hist)} on this object)", flavor=spec["flavor"], earlier_calls=hist[-6:])

    for op in spec["ops"]:
        kind = op[0]
        if kind == "ci":
            _, x, y, Z, as_tuple = op
            if Z:
                label = f"check_independence([{x}],[{y}],{Z},condition_random_variable=True)"
                r = ctx.call(jpd.check_independence, [x], [y], tuple(Z) if as_tuple else list(Z), True)
            else:
                label = f"check_independence([{x}],[{y}])"
                r = ctx.call(jpd.check_independence, [x], [y])
            judge(label, r, st({x}, {y}, set(Z)))
        elif kind == "ci_ctx":
            _, x, y, c = op
            c = [(z, int(s)) for z, s in c]
            Jc, keep = conditional(c)
            label = f"check_independence([{x}],[{y}],{c})"
            judge(label, ctx.call(jpd.check_independence, [x], [y], list(c)), C.ci_status(Jc, keep, {x}, {y}, set()))
        elif kind == "gi":
            c = [(z, int(s)) for z, s in op[1]] if op[1] else None
            Jc, keep = conditional(c) if c else (J, list(names))
            label = f"get_independencies({c})"
            r = ctx.call(jpd.get_independencies, list(c)) if c else ctx.call(jpd.get_independencies)
            if ctx.failed(r):
                ctx.violation(f"c18:exception:{r.type}@{r.where}", f"{label} raised {r!r}", earlier_calls=hist[-6:])
            else:
                try:
                    got = C._pairs_of(r)
                except Exception as e:
                    ctx.violation("c18:malformed-result", f"{label}: {type(e).__name__}: {e}")
                    got = None
                if got is not None:
                    digest.append(sorted(map(sorted, got)))
                    for u, v in itertools.combinations(keep, 2):
                        s = C.ci_status(Jc, keep, {u}, {v}, set())
                        if s == "ambiguous":
                            ctx.note("indep:not-judged-near-tolerance")
                            continue
                        ctx.expect((frozenset((u, v)) in got) == (s == "holds"), "c18:wrong-independence-list",
                                   f"{label}: pair ({u},{v}) {'listed' if frozenset((u, v)) in got else 'not listed'} "
                                   f"but the independence {s} (call #{len(hist)} on this object)",
                                   flavor=spec["flavor"], earlier_calls=hist[-6:])
                    extra = [sorted(p) for p in got if not p <= set(keep)]
                    ctx.expect(not extra, "c18:wrong-independence-list",
                               f"{label} lists pairs outside the remaining scope: {extra}", earlier_calls=hist[-6:])
        elif kind == "imap":
            order = list(op[1])
            G = ctx.call(jpd.minimal_imap, list(order))
            C.judge_minimal_imap(ctx, G, order, st, triples, agg, digest, spec["flavor"],
                                 label=f"minimal_imap(order={order}) as call #{len(hist)} on a reused object")
        elif kind == "is_imap":
            _, which, via_model = op
            mdl = model(which)
            if ctx.failed(mdl):
                ctx.violation(f"c18:exception:{mdl.type}@{mdl.where}", f"building BN raised {mdl!r}")
            else:
                b = spec["bn"] if which == "own" else spec["alt"]
                if which == "own":
                    want = True
                else:
                    dsb = oracle.DSep(b["nodes"], [tuple(e) for e in b["edges"]])
                    broken = any(all(dsb.dsep(x, y, t[2]) for x in t[0] for y in t[1]) and st(*t) == "fails"
                                 for t in triples)
                    want = False if broken else None
                if want is None:
                    ctx.note("imap:alt-graph-is-imap-not-judged")
                else:
                    label = "BayesianNetwork.is_imap(JPD)" if via_model else "JointProbabilityDistribution.is_imap(model)"
                    r = ctx.call(mdl.is_imap, jpd) if via_model else ctx.call(jpd.is_imap, mdl)
                    if ctx.failed(r):
                        ctx.violation(f"c18:exception:{r.type}@{r.where}", f"{label} raised {r!r}",
                                      earlier_calls=hist[-6:])
                    else:
                        digest.append(bool(r))
                        ctx.expect(bool(r) == want, "c18:wrong-is-imap",
                                   f"{label} -> {bool(r)} for " + ("the network that generated the table" if want else
                                   "a network whose graph encodes an independence that fails in the table") +
                                   f" (call #{len(hist)} on this object)", which=which, earlier_calls=hist[-6:])
        elif kind == "aux":
            _, sub, arg = op
            if sub == "marg":
                r = ctx.call(jpd.marginal_distribution, list(arg), inplace=False)
            elif sub == "cond":
                r = ctx.call(jpd.conditional_distribution, [(z, int(s)) for z, s in arg], inplace=False)
            elif sub == "copy":
                r = ctx.call(jpd.copy)
            else:
                r = ctx.call(jpd.to_factor)
            if ctx.failed(r):
                ctx.note(f"seq:aux-{sub}-raised")        # not this property's business; later answers still are
        else:
            raise ValueError(kind)
        hist.append(op if kind != "aux" else op[:2])
    C._flush(ctx, agg)
    ctx.nontrivial = seen["holds"] > 0 and seen["fails"] > 0 and len(spec["ops"]) >= 10
    ctx.feature(f"table:{spec['flavor']}")
    ctx.feature(f"jpd_seq:n{n}")
    ctx.xcell["jpd_seq"] = "".join(answers) + gen.spec_digest(digest)
