"""C19 - conditional-independence tests compute the statistic they document.

Observe: pgmpy.estimators.CITests.power_divergence(lambda_=name | number | default) and the named wrappers
         chi_square / g_sq / log_likelihood / modified_log_likelihood with boolean=False ((statistic, p, dof)) and
         boolean=True (verdict) on the same inputs; pearsonr likewise; inside PC.build_skeleton every call of the
         CI test (arguments, verdict) and what the skeleton search did with the verdict.
Oracle : own implementation of the documented stratified contingency-table test, evaluated from the case spec by a
         plain row loop: per stratum of Z a table over the X / Y values present in that stratum, expected = row*col/n,
         Cressie-Read statistic 2/(l(l+1)) * sum O[(O/E)^l - 1] with the l -> 0 and l -> -1 limits, scipy's documented
         Yates correction on tables with one degree of freedom, statistic and dof summed over strata, p = chi2 survival
         function (p = 1 for dof 0: the chi2 law with 0 dof is the point mass at 0, which is also what
         scipy.stats.chi2_contingency reports).  Relations: X<->Y swap, row permutation, permutation of Z give the
         identical triple; outer-product (exactly independent) tables give statistic 0 and p 1; the boolean verdict is
         (returned p >= alpha), probed at fixed alphas and exactly at the tie alpha = p.  The names in the lambda_
         table of power_divergence's docstring must select the lambda value printed next to them.
         pearsonr: coefficient and p-value equal Pearson's test (t law with n-2 dof) on least-squares residuals of X and
         Y on Z *with intercept*; invariant under v -> a*v + b (a > 0) applied to any of X, Y, Z_i.
         PC.build_skeleton: a spy placed in PC.CI_TESTS records each call; each verdict must equal the oracle's
         (p >= significance_level passed by the user), an edge is removed iff one of its calls returned True and the
         stored separating set is the Z of that call.
"""
import math
import os
import re

import numpy as np

from rv import gen

PLAN = {
    "quick": {"cases": 1200, "hashseeds": 3, "shards": 5, "timeout": 900, "min_nontrivial": 450},
    "thorough": {"cases": 6000, "hashseeds": 8, "shards": 2, "timeout": 3000, "min_nontrivial": 2400},
}
if os.environ.get("RV_C19_CASES"):      # development knob: only the first N cases of the same case stream
    for _t in PLAN.values():
        _t["cases"] = int(os.environ["RV_C19_CASES"])
        _t["min_nontrivial"] = min(_t["min_nontrivial"], _t["cases"] // 3)

RULE = ("four case kinds drawn per index. disc (~55%): discrete frame, 2-5 columns (thorough 2-6), cardinalities 2-5 "
        "(thorough 2-7), 4-2000 rows (thorough up to 6000) plus a 'huge' regime in which 300-2000 sampled rows are repeated "
        "10-60 (thorough 150) times (cell counts up to ~1e5, ~120 000 rows) forward-sampled iid / from a random BN whose CPTs contain "
        "exact zeros / skewed / near-deterministic copies (sparse strata, empty cells, strata with a single X or Y "
        "value); column dtypes int64 / int32 / category (str or int categories, shuffled category order, ordered or "
        "not, unobserved extra categories where the column is not X/Y of an unconditional test) / object-of-str; "
        "labels 0..k-1, 1..k, arbitrary (negative, gapped) ints, strings; str or int column names; default, permuted or "
        "duplicated row index; 3 (X, Y, Z) probes (1 on two-column frames), |Z| 0-3 (thorough 0-4, product of the Z "
        "cardinalities <= 700), Z as list or tuple; X inside Z must be refused with ValueError; per probe the six named "
        "lambdas, 2 numeric lambdas, the default, the four wrappers and every name in the docstring table against "
        "the oracle; X<->Y, row-permutation and Z-permutation relations on two lambdas; verdicts at alpha in "
        "{0.01,0.05,0.5}, a drawn alpha, the tie alpha = p and nextafter(p). indep (~11%): outer-product counts in every "
        "stratum (subsets of the X / Y values per stratum, incl. single-value strata; multipliers 1-1000, up to ~120 000 "
        "rows), all lambdas: statistic 0, "
        "p 1. cont (~17%): 50-500 rows (thorough up to 2000), 2-5 float columns from a random linear SEM with non-zero "
        "means, stored in plain units or with every column in its own unit (scale 10^U(-8,8), optionally shifted); "
        "|Z| 0-3: pearsonr against the intercept-residual oracle evaluated in centred unit-variance units; affine maps "
        "v -> a*v + b on X alone, Y alone, one Z member alone and all variables together with a log-uniform over "
        "1e-8..1e8 and b = 0 or +-10^U(-3,6), the shift reduced where needed so that |mean|/sd of the stored image stays "
        "<= 1e6 (beyond that the float64 column no longer carries the variation to the accuracy compared); each image "
        "is judged against the oracle on the stored image with tolerance 1e-8 + 200 eps |mean|/sd + 0.1 eps "
        "kappa([1,Z]) (1 + |mean|/sd of X,Y) (skipped as too ill-conditioned when that exceeds 0.05); verdict "
        "ties. pc (~17%): PC(data).build_skeleton / estimate(return_type='skeleton') with a named test, variant "
        "orig / stable / parallel(n_jobs=1), max_cond_vars 0-3, traced by a spy in PC.CI_TESTS; the registered function is also "
        "called with boolean=False on 3 traced triples and compared with the oracle of the named test. non-trivial: disc / "
        "indep - some probe with total dof > 0 (and for disc a non-empty Z among the probes or >= 3 columns); cont - "
        "some probe with non-empty Z; pc - some traced call with non-empty Z. distinct by digest of the whole spec")
ASSUMPTIONS = ["scipy.stats.chi2.sf and scipy.stats.t.sf (distribution functions) are trusted",
               "numpy.linalg.lstsq is trusted for the residual oracle",
               "float64 comparisons at 1e-9 abs + 1e-9 rel (statistic), 1e-9 abs (p); correlation coefficient: 1e-8 + "
               "200 eps max|mean|/sd + 0.1 eps kappa(raw design [1,Z]) (1 + max|mean|/sd of X,Y), p-value tolerance = the "
               "oracle's own p(r +- tol) spread (observed errors of the fixed tree stay below 0.2% of this allowance)",
               "affine images are generated only with |mean|/sd <= 1e6 per stored column: a float64 column beyond that keeps "
               "fewer than ~10 significant digits of the variable's variation, so the stored frame is not an affine image",
               "scipy's Yates continuity correction on 1-dof tables is part of the documented test (chi2_contingency default)",
               "a declared-but-unobserved category of X or Y in an unconditional test is a refusal (zero margin) and is "
               "not generated",
               "for lambda < -1 a table with an empty cell has no finite statistic (+inf in the limit): NaN or +inf accepted"]
REACH = [
    "pgmpy.estimators.CITests:power_divergence",
    "pgmpy.estimators.CITests:chi_square",
    "pgmpy.estimators.CITests:g_sq",
    "pgmpy.estimators.CITests:log_likelihood",
    "pgmpy.estimators.CITests:modified_log_likelihood",
    "pgmpy.estimators.CITests:pearsonr",
    "pgmpy.estimators.PC:PC.build_skeleton",
    "pgmpy.estimators.PC:PC.estimate",
]
REACH_REQUIRED = list(REACH)
MANIFEST = {
    "text": "On every generated discrete frame and (X, Y, Z, lambda) probe the (statistic, p, dof) returned by the "
            "power-divergence family equals an independent row-loop implementation of the documented stratified "
            "contingency test; the triple is invariant under X<->Y, row and Z permutation; outer-product tables give "
            "(0, 1); verdicts equal p >= alpha including exact ties; pearsonr equals Pearson's test on "
            "intercept-regression residuals and is affine invariant; every verdict consumed by PC.build_skeleton is the "
            "oracle's and is acted upon (edge removed iff a call returned True, separating set recorded).",
    "note": "trusts the chi2 / t distribution functions and numpy.linalg.lstsq",
    "technique": "runtime monitoring: reference-model oracle at the API boundary, metamorphic relation monitors, "
                 "recorded-trace checker on the CI-test calls made by the skeleton search",
}

NAMED = {"pearson": 1.0, "log-likelihood": 0.0, "freeman-tukey": -0.5, "mod-log-likelihood": -1.0,
         "neyman": -2.0, "cressie-read": 2.0 / 3.0}
NUMERIC_POOL = [1, 0, -0.5, -1, -2, 2.0 / 3.0, 1.0, 0.0, 0.3, 2.5, -0.3, -1.5, 3, 0.5, -0.75]
WRAPPERS = {"chi_square": 1.0, "g_sq": 0.0, "log_likelihood": 0.0, "modified_log_likelihood": -1.0}
PC_NAMES = {"chi_square": 1.0, "g_sq": 0.0, "log_likelihood": 0.0, "modified_log_likelihood": -1.0,
            "power_divergence": 2.0 / 3.0}
ALPHAS = [0.01, 0.05, 0.5]

K_DOF0 = "c19:dof0-pvalue-nan"
K_NEGLAM = "c19:neg-lambda-empty-cell-nan"
K_DOCNAME = "c19:documented-lambda-name-rejected"
K_NOINT = "c19:pearsonr:no-intercept"
K_INTCOL = "c19:int-column-labels:unconditional-categorical"
K_RANK = "c19:pearsonr:raw-design-rank-cutoff"


# =========================================================================== generators
def _labels(rng, name, k, dtype):
    if dtype in ("int", "int32"):
        u = rng.random()
        if u < 0.4:
            return list(range(k))
        if u < 0.6:
            return list(range(1, k + 1))
        return rng.sample(range(-6, 25), k)
    if dtype == "cat-int":
        return rng.sample(range(0, 12), k)
    pool = [f"{name}{ch}" for ch in "abcdefghij"[:k]] if rng.random() < 0.5 else list("pqrstuvwxy"[:k])
    rng.shuffle(pool)
    return pool


def _weights(rng, k, mode):
    if mode == "iid":
        return [1.0] * k
    if mode == "skew":
        w = [0.03 + 0.1 * rng.random() for _ in range(k)]
        w[rng.randrange(k)] = 1.0
        return w
    return gen.rand_column(rng, k, zeros=True)


def _sample_codes(rng, cards, n, mode):
    """forward sampling of integer codes from a random BN over the columns (column order = topological order)."""
    ncols = len(cards)
    codes = [[0] * n for _ in range(ncols)]
    for j in range(ncols):
        k = cards[j]
        if mode in ("iid", "skew") or j == 0:
            parents = []
        else:
            parents = rng.sample(range(j), min(j, rng.choice([0, 1, 1, 2, 2])))
        copy = mode == "copy" and parents and rng.random() < 0.6
        table = {}
        col = codes[j]
        pc = [codes[p] for p in parents]
        rk = range(k)
        for i in range(n):
            cfg = tuple(c[i] for c in pc)
            w = table.get(cfg)
            if w is None:
                if copy:
                    w = [0.02] * k
                    w[sum(cfg) % k] = 1.0
                    if rng.random() < 0.3:
                        w = [0.0 if x < 1 else 1.0 for x in w]
                else:
                    w = _weights(rng, k, "bn" if mode == "copy" else mode)
                table[cfg] = w
            col[i] = rng.choices(rk, weights=w)[0]
        if len(dict.fromkeys(col)) < 2:          # the quantifier says cardinalities 2..k
            col[0], col[1] = 0, 1
    return codes


def _column(rng, name, codes, dtype, extra_ok):
    """spec of one column from integer codes: observed codes are relabelled; declared = observed (+ extras for Z)."""
    seen = list(dict.fromkeys(codes))
    k = len(seen)
    labs = _labels(rng, name, k, dtype)
    m = dict(zip(seen, labs))
    col = {"name": name, "dtype": dtype, "values": [m[c] for c in codes]}
    if dtype.startswith("cat"):
        cats = list(labs)
        if extra_ok and rng.random() < 0.4:
            cats.append(99 if dtype == "cat-int" else "zz_unseen")
        rng.shuffle(cats)
        col["categories"] = cats
        col["ordered"] = rng.random() < 0.3
    return col


def _probes(rng, names, nq, zmax, cards=None, cap=700):
    out = []
    for _ in range(nq):
        X, Y = rng.sample(names, 2)
        rest = [c for c in names if c not in (X, Y)]
        zs = rng.choice([0, 1, 1, 2, 2, 3, zmax])
        Z = rng.sample(rest, min(zs, len(rest)))
        while cards and Z and math.prod(cards[z] for z in Z) > cap:     # bounds the per-call cost (strata loop)
            Z = Z[:-1]
        lams = rng.sample(NUMERIC_POOL, 2)
        rel = [rng.choice(list(NAMED)), rng.choice(lams + list(NAMED))]
        out.append({"X": X, "Y": Y, "Z": Z, "ztuple": rng.random() < 0.4, "lams": lams, "rel": rel,
                    "boolfn": rng.choice(list(WRAPPERS) + ["power_divergence"]),
                    "boollam": rng.choice(list(NAMED)), "alpha": round(rng.uniform(0.001, 0.999), 4)})
    return out


def _names(rng, ncols):
    u = rng.random()
    if u < 0.55:
        return [f"c{i}" for i in range(ncols)]
    if u < 0.8:
        return rng.sample(["A", "B", "X y", "z", "Q1", "w", "Z"], ncols)
    return rng.sample(range(0, 8), ncols)          # integer column labels


def _frame_dtypes(rng, ncols):
    u = rng.random()
    if u < 0.35:
        return [rng.choice(["int", "int", "int32"]) for _ in range(ncols)]
    if u < 0.6:
        return [rng.choice(["cat-str", "cat-str", "cat-int"]) for _ in range(ncols)]
    return [rng.choice(["int", "cat-str", "cat-int", "obj", "int32"]) for _ in range(ncols)]


def gen_disc(rng, tier):
    big = tier == "thorough"
    ncols = rng.choice([2, 3, 3, 4, 4, 4, 5, 5] + ([6] if big else []))
    cards = [rng.choice([2, 2, 3, 3, 4, 5] + ([6, 7] if big else [])) for _ in range(ncols)]
    regime = rng.choice(["micro", "tiny", "tiny", "small", "small", "small", "medium", "medium", "medium", "large",
                         "large", "huge"])
    n = {"micro": rng.randint(4, 19), "tiny": rng.randint(20, 60), "small": rng.randint(60, 300),
         "medium": rng.randint(300, 1000), "large": rng.randint(1000, 6000 if big else 2000),
         "huge": rng.randint(300, 2000)}[regime]
    # huge: every row but the last `tail` ones is repeated `rep` times (cell counts in the 1e3..1e5 range, up to
    # ~120 000 rows; thorough ~300 000) - stored compactly in the spec and expanded by build_df / colmap_of
    rep = rng.randint(10, 150 if big else 60) if regime == "huge" else 1
    tail = rng.randint(0, min(50, n - 1)) if regime == "huge" else 0
    if regime == "huge":
        ncols = min(ncols, 4)
        cards = cards[:ncols]
    mode = rng.choice(["iid", "bn", "bn", "bn", "skew", "copy"])
    codes = _sample_codes(rng, cards, n, mode)
    names = _names(rng, ncols)
    probes = _probes(rng, names, 3 if ncols >= 3 else 1, 4 if big else 3, cards=dict(zip(names, cards)))
    uncond = set()
    for p in probes:
        if not p["Z"]:
            uncond.update([p["X"], p["Y"]])
    dts = _frame_dtypes(rng, ncols)
    cols = [_column(rng, names[j], codes[j], dts[j], extra_ok=names[j] not in uncond) for j in range(ncols)]
    return {"kind": "disc", "mode": mode, "regime": regime, "cols": cols, "probes": probes, "rep": rep, "tail": tail,
            "index": rng.choice(["range", "range", "perm", "dup"]), "perm_seed": rng.randrange(10 ** 6)}


def gen_indep(rng, tier):
    """counts m * a_i * b_j in every stratum over a per-stratum subset of the X and Y values."""
    big = tier == "thorough"
    kx, ky = rng.randint(2, 6 if big else 5), rng.randint(2, 6 if big else 5)
    nz = rng.choice([0, 1, 1, 2])
    zc = [rng.randint(2, 3) for _ in range(nz)]
    configs = [()]
    for c in zc:
        configs = [t + (s,) for t in configs for s in range(c)]
    if nz and rng.random() < 0.5 and len(configs) > 2:
        sub = rng.sample(configs, rng.randint(2, len(configs)))      # distinct strata, some configurations unobserved
        if all(len(dict.fromkeys(t[d] for t in sub)) >= 2 for d in range(nz)):
            configs = sub
    degenerate_all = nz > 0 and rng.random() < 0.08
    rows = []
    for ci, t in enumerate(configs):
        if degenerate_all:
            sx = [ci % kx]
            sy = list(range(ky))
        elif nz and rng.random() < 0.35:
            sx = sorted(rng.sample(range(kx), rng.randint(1, kx)))
            sy = sorted(rng.sample(range(ky), rng.randint(1, ky)))
        else:
            sx, sy = list(range(kx)), list(range(ky))
        a = [rng.randint(1, 4) for _ in sx]
        b = [rng.randint(1, 4) for _ in sy]
        m = rng.choice([1, 1, 1, 2, 3, 7, 50, 1000])
        while m > 1 and m * sum(a) * sum(b) * len(configs) > 120000:      # bound the frame (<= ~120 000 rows)
            m = max(1, m // 4)
        for i, x in enumerate(sx):
            for j, y in enumerate(sy):
                rows.extend([(x, y) + t] * (m * a[i] * b[j]))
    rng.shuffle(rows)
    names = ["X", "Y"] + [f"Z{d}" for d in range(nz)]
    dts = _frame_dtypes(rng, len(names))
    cols = []
    for j, nm in enumerate(names):
        codes = [r[j] for r in rows]
        if len(dict.fromkeys(codes)) < 2:
            return gen_indep(rng, tier)             # redraw (rare): a constant column is outside the quantifier
        cols.append(_column(rng, nm, codes, dts[j], extra_ok=(j >= 2)))
    Z = names[2:]
    rng.shuffle(Z)
    probe = {"X": "X", "Y": "Y", "Z": Z, "ztuple": rng.random() < 0.4, "lams": rng.sample(NUMERIC_POOL, 3),
             "rel": [rng.choice(list(NAMED))], "boolfn": rng.choice(list(WRAPPERS) + ["power_divergence"]),
             "boollam": rng.choice(list(NAMED)), "alpha": round(rng.uniform(0.001, 0.999), 4)}
    return {"kind": "indep", "cols": cols, "probes": [probe], "index": rng.choice(["range", "perm"]),
            "perm_seed": rng.randrange(10 ** 6), "degenerate_all": degenerate_all}


RHO_MAX = 1e6          # |mean| / sd of any stored column: beyond this a float64 column keeps < ~10 digits of the variation


def _mean_sd(vals):
    n = len(vals)
    m = math.fsum(vals) / n
    return m, math.sqrt(math.fsum((v - m) ** 2 for v in vals) / n)


def _rand_affine(rng, m, sd, a=None):
    """(a, b): a log-uniform over 1e-8..1e8 (or given), shift 0 or +-10^U(-3,6), the shift reduced where needed so that
    the stored image a*v+b keeps |mean| <= RHO_MAX * sd (otherwise the float64 column is no longer an affine image of
    v to the accuracy compared: the spacing of doubles near the mean eats the variation)."""
    if a is None:
        a = 10.0 ** rng.uniform(-8, 8) if rng.random() < 0.8 else rng.choice([0.1, 0.5, 1.0, 2.0, 7.5])
    b = 0.0 if rng.random() < 0.3 else rng.choice([-1.0, 1.0]) * 10.0 ** rng.uniform(-3, 6)
    m2, s2 = a * m + b, a * sd
    if abs(m2) > RHO_MAX * s2:
        b = math.copysign(RHO_MAX * s2, m2) - a * m
    return [a, b]


def gen_cont(rng, tier, for_pc=False):
    big = tier == "thorough"
    ncols = rng.choice([2, 3, 3, 4, 4, 5] + ([6] if big else []))
    if for_pc:
        ncols = rng.choice([3, 4, 4, 5])
    n = rng.choice([rng.randint(50, 120), rng.randint(120, 500), rng.randint(50, 2000 if big else 500)])
    names = [f"v{i}" for i in range(ncols)] if rng.random() < 0.7 else rng.sample(["a", "b", "c", "d", "e", "f", "g"], ncols)
    meanmode = rng.choice(["offset", "offset", "offset", "big", "zero"])
    units = rng.choice(["plain", "plain", "scaled", "affine"])       # measurement units of the stored columns
    data = []
    for j in range(ncols):
        par = [p for p in range(j) if rng.random() < 0.5]
        coef = [rng.choice([-1, 1]) * rng.uniform(0.3, 2.0) for _ in par]
        sd = rng.uniform(0.3, 2.0)
        mu = {"offset": rng.uniform(-5, 5), "big": rng.choice([-1, 1]) * rng.uniform(20, 100), "zero": 0.0}[meanmode]
        col = [mu + sd * rng.gauss(0, 1) + sum(c * data[p][i] for c, p in zip(coef, par)) for i in range(n)]
        data.append(col)
    stored, stats = [], {}
    for j in range(ncols):
        col = data[j]
        if units != "plain":
            m, sd = _mean_sd(col)
            a, b = _rand_affine(rng, m, sd, a=10.0 ** rng.uniform(-8, 8))
            if units == "scaled":
                b = 0.0
            col = [a * v + b for v in col]
        stored.append(col)
        stats[names[j]] = _mean_sd(col)
    cols = [{"name": names[j], "dtype": "float", "values": stored[j]} for j in range(ncols)]
    probes = []
    for _ in range(3 if ncols >= 3 else 1):
        X, Y = rng.sample(names, 2)
        rest = [c for c in names if c not in (X, Y)]
        Z = rng.sample(rest, min(rng.choice([0, 1, 1, 2, 2, 3]), len(rest)))
        # affine reparametrisations: X alone, Y alone, one member of Z alone, all variables together
        groups = [("X", [X]), ("Y", [Y])] + ([("Z", [rng.choice(Z)])] if Z else []) + [("all", [X, Y] + Z)]
        maps = []
        for label, vs in groups:
            tf = {}
            for v in vs:
                m, sd = stats[v]
                if units == "plain":
                    tf[v] = _rand_affine(rng, m, sd)
                else:       # keep the composed scale (unit * a) inside 1e-8..1e8 of the natural units
                    tf[v] = _rand_affine(rng, m, sd, a=10.0 ** rng.uniform(-8, 8) / max(sd, 1e-300))
            maps.append({"label": label, "tf": tf})
        probes.append({"X": X, "Y": Y, "Z": Z, "ztuple": rng.random() < 0.4, "maps": maps,
                       "alpha": round(rng.uniform(0.001, 0.999), 4)})
    return {"kind": "cont", "meanmode": meanmode, "units": units, "cols": cols, "probes": probes, "index": "range",
            "perm_seed": 0}


def gen_pc(rng, tier):
    if rng.random() < 0.22:
        spec = gen_cont(rng, tier, for_pc=True)
        spec["ci"] = "pearsonr"
    else:
        ncols = rng.choice([3, 3, 4, 4, 5])
        cards = [rng.choice([2, 2, 3, 3, 4]) for _ in range(ncols)]
        n = rng.choice([rng.randint(40, 150), rng.randint(150, 600), rng.randint(600, 1500)])
        mode = rng.choice(["bn", "bn", "iid", "copy"])
        codes = _sample_codes(rng, cards, n, mode)
        names = _names(rng, ncols)
        if not all(isinstance(x, str) for x in names):
            names = [f"c{i}" for i in range(ncols)]
        dts = [rng.choice(["int", "cat-str", "obj", "int"]) for _ in range(ncols)]
        cols = [_column(rng, names[j], codes[j], dts[j], extra_ok=False) for j in range(ncols)]
        spec = {"cols": cols, "ci": rng.choice(list(PC_NAMES)), "mode": mode, "index": "range", "perm_seed": 0}
    spec.update(kind="pc", variant=rng.choice(["orig", "stable", "stable", "parallel"]),
                alpha=rng.choice([0.01, 0.05, 0.2, 0.5]), max_cond_vars=rng.choice([0, 1, 2, 2, 3]),
                via=rng.choice(["build_skeleton", "estimate"]), probes=[])
    return spec


def gen_case(seed, idx, tier):
    rng = gen.rng_for("C19", seed, idx)
    u = rng.random()
    if u < 0.55:
        return gen_disc(rng, tier)
    if u < 0.66:
        return gen_indep(rng, tier)
    if u < 0.83:
        return gen_cont(rng, tier)
    return gen_pc(rng, tier)


# =============================================================================== oracle
def strata_tables(colmap, X, Y, Z):
    """list of per-stratum count tables (numpy, rows = X values present, columns = Y values present)."""
    xs, ys = colmap[X], colmap[Y]
    zs = [colmap[z] for z in Z]
    cnt = {}
    for i in range(len(xs)):
        key = tuple(zc[i] for zc in zs)
        d = cnt.get(key)
        if d is None:
            d = cnt[key] = {}
        xy = (xs[i], ys[i])
        d[xy] = d.get(xy, 0) + 1
    tables = []
    for key, d in cnt.items():
        xv = list(dict.fromkeys(x for x, _ in d))
        yv = list(dict.fromkeys(y for _, y in d))
        T = np.zeros((len(xv), len(yv)))
        for (x, y), c in d.items():
            T[xv.index(x), yv.index(y)] = c
        tables.append((key, xv, yv, T))
    return tables


def table_stat(T, lam):
    """(statistic, dof, info) of one table with positive margins; info: 'zero' = empty cell after correction."""
    r, c = T.shape
    dof = (r - 1) * (c - 1)
    if dof == 0:
        return 0.0, 0, None
    n = T.sum()
    E = np.outer(T.sum(axis=1), T.sum(axis=0)) / n
    O = T
    if dof == 1:
        d = E - O
        O = O + np.sign(d) * np.minimum(0.5, np.abs(d))
    zero = bool((O == 0).any())
    with np.errstate(all="ignore"):
        if lam == 0:
            terms = 2.0 * np.where(O > 0, O * np.log(np.where(O > 0, O, 1.0) / E), 0.0)
        elif lam == -1:
            if zero:
                return math.inf, dof, "zero"
            terms = 2.0 * E * np.log(E / O)
        else:
            if zero and lam < -1:
                return math.inf, dof, "zero"
            pos = O > 0
            Os = np.where(pos, O, 1.0)
            terms = np.where(pos, Os * ((Os / E) ** lam - 1.0), 0.0) / (0.5 * lam * (lam + 1.0))
    return math.fsum(terms.ravel().tolist()), dof, ("zero" if zero else None)


def oracle_cit(tables, lam):
    from scipy.stats import chi2
    stats, dof, zero = [], 0, False
    for (_, _, _, T) in tables:
        s, d, info = table_stat(T, lam)
        stats.append(s)
        dof += d
        zero = zero or info == "zero"
    stat = math.inf if any(s == math.inf for s in stats) else math.fsum(stats)
    p = 1.0 if dof == 0 else float(chi2.sf(stat, dof))
    return {"stat": stat, "dof": dof, "p": p, "zero": zero,
            "undefined": zero and lam < -1,                 # no finite statistic: NaN / inf accepted
            "negzero": zero and -1 < lam < 0}               # finite statistic although a cell is empty


EPS = 2.220446049250313e-16


def _standardise(vals):
    """(v - mean) / rms in well-scaled units; also returns rho = |mean| / sd of the stored column."""
    a = np.asarray(vals, float)
    m = math.fsum(a.tolist()) / len(a)
    c = a - m
    sd = math.sqrt(math.fsum((c * c).tolist()) / len(a))
    if not sd > 0:
        raise ValueError("constant column")
    return c / sd, abs(m) / sd


def p_of_r(r, n):
    from scipy.stats import t as tdist
    r = max(-1.0, min(1.0, r))
    if abs(r) >= 1.0:
        return 0.0
    tval = r * math.sqrt((n - 2) / ((1.0 - r) * (1.0 + r)))
    return float(2.0 * tdist.sf(abs(tval), n - 2))


def oracle_pearson(colmap, X, Y, Z, full=False):
    """Pearson's test on the residuals of X and Y regressed on Z with intercept, computed after every variable was
    centred and scaled to unit variance (the partial correlation does not depend on units; in these units the design
    matrix is as well conditioned as the data allows).  full=True also returns the tolerances a correct float64
    implementation working in the stored units is allowed: tol_r = 1e-8 + 200*eps*max|mean|/sd + 0.1*eps*kappa([1, Z])*(1 + max |mean|/sd of X, Y)."""
    x, rho = _standardise(colmap[X])
    y, rh = _standardise(colmap[Y])
    rho = rho_xy = max(rho, rh)
    n = len(x)
    cols = [np.ones(n)]
    for z in Z:
        zz, rh = _standardise(colmap[z])
        rho = max(rho, rh)
        cols.append(zz)
    A = np.column_stack(cols)
    rx = x - A @ np.linalg.lstsq(A, x, rcond=None)[0]
    ry = y - A @ np.linalg.lstsq(A, y, rcond=None)[0]
    rx = rx - rx.mean()
    ry = ry - ry.mean()
    r = float(rx @ ry / math.sqrt((rx @ rx) * (ry @ ry)))
    r = max(-1.0, min(1.0, r))
    p = p_of_r(r, n)
    if not full:
        return r, p
    kappa = 1.0
    if Z:
        c = design_conditioning(colmap, Z)
        kappa = 1.0 / c["raw"] if c["raw"] > 0 else math.inf
    # allowance for a correct float64 implementation working in the stored units:
    #   200 * eps * rho                 cancellation against the column means (observed <= ~3 eps*rho)
    #   0.1 * eps * kappa * (1+rho_xy)  classical least-squares perturbation bound eps * kappa([1, Z]) * |rhs| / |residual|
    #                                   (observed <= 2e-4 of eps*kappa*(1+rho_xy) over 13 000 calls on the fixed tree)
    # when the allowance exceeds 0.05 the case is too ill-conditioned to call (callers skip it, counted as a note)
    tol_r = 1e-8 + 200.0 * EPS * rho + 0.1 * EPS * kappa * (1.0 + rho_xy)
    tol_p = 1e-9 + 1e-6 * p + max(abs(p_of_r(r + tol_r, n) - p), abs(p_of_r(r - tol_r, n) - p))
    return {"r": r, "p": p, "n": n, "rho": rho, "kappa": kappa, "tol_r": tol_r, "tol_p": tol_p}


def design_conditioning(colmap, Z):
    """singular-value ratio of the raw design [1, Z] as handed to a least-squares solver, and of the centred, unit-variance
    design (the structural predicate of the rank-cutoff mechanism)."""
    n = len(colmap[Z[0]])
    raw = np.column_stack([np.ones(n)] + [np.asarray(colmap[z], float) for z in Z])
    std = np.column_stack([np.ones(n)] + [_standardise(colmap[z])[0] for z in Z])
    sr = np.linalg.svd(raw, compute_uv=False)
    ss = np.linalg.svd(std, compute_uv=False)
    return {"raw": float(sr[-1] / sr[0]) if sr[0] > 0 else 0.0, "std": float(ss[-1] / ss[0]), "cutoff": EPS * max(raw.shape)}


# ======================================================================= frame building
def _expand(vals, spec):
    rep, tail = spec.get("rep", 1), spec.get("tail", 0)
    if rep <= 1:
        return list(vals)
    head = vals[:len(vals) - tail]
    return [v for v in head for _ in range(rep)] + list(vals[len(vals) - tail:])


def transformed_colmap(spec, tf=None, standardise=()):
    """the float columns as stored after the affine maps tf = {var: [a, b]} (exactly the arithmetic of build_df)."""
    out = {}
    for c in spec["cols"]:
        a = np.array(c["values"], dtype=float)
        if tf and c["name"] in tf:
            a = tf[c["name"]][0] * a + tf[c["name"]][1]
        if c["name"] in standardise:
            a = a - a.mean()
            a = a / math.sqrt(float((a * a).mean()))
        out[c["name"]] = a
    return out


def build_df(spec, extra_rows=None, demean=False, affine=None, standardise=()):
    import pandas as pd
    data, names = {}, []
    fl = transformed_colmap(spec, affine, standardise) if spec["kind"] in ("cont",) or spec.get("ci") == "pearsonr" else None
    for c in spec["cols"]:
        vals = _expand(c["values"], spec) if fl is None else None
        if extra_rows:
            vals += [r[c["name"]] for r in extra_rows]
        dt = c["dtype"]
        if dt == "int":
            s = pd.Series(np.array(vals, dtype=np.int64))
        elif dt == "int32":
            s = pd.Series(np.array(vals, dtype=np.int32))
        elif dt.startswith("cat"):
            s = pd.Series(pd.Categorical(vals, categories=list(c["categories"]), ordered=bool(c["ordered"])))
        elif dt == "obj":
            s = pd.Series(vals, dtype=object)
        else:
            a = fl[c["name"]] if fl is not None else np.array(vals, dtype=float)
            if demean:
                a = a - a.mean()
            s = pd.Series(a)
        data[c["name"]] = s
        names.append(c["name"])
    df = pd.DataFrame(data, columns=names)
    if spec.get("index") == "perm" and not extra_rows:
        import random
        idx = list(range(len(df)))
        random.Random(spec["perm_seed"]).shuffle(idx)
        df.index = idx
    elif spec.get("index") == "dup" and not extra_rows:
        df.index = [i // 2 for i in range(len(df))]
    return df


def colmap_of(spec, extra_rows=None):
    return {c["name"]: _expand(c["values"], spec) + ([r[c["name"]] for r in extra_rows] if extra_rows else [])
            for c in spec["cols"]}


# ============================================================================== judging
def _close(a, b, atol=1e-9, rtol=1e-9):
    if a != a or b != b:
        return a != a and b != b
    if a == b:
        return True
    if math.isinf(a) or math.isinf(b):
        return False
    return abs(a - b) <= atol + rtol * abs(b)


def read_triple(r):
    if not isinstance(r, tuple) or len(r) != 3:
        raise ValueError(f"expected a 3-tuple, got {type(r).__name__} {r!r}")
    stat, p, dof = float(r[0]), float(r[1]), r[2]
    if isinstance(dof, bool) or int(dof) != dof:
        raise ValueError(f"dof {dof!r} is not an integer")
    return stat, p, int(dof)


def same_triple(a, b):
    return _close(a[0], b[0]) and _close(a[1], b[1], 1e-9, 0) and a[2] == b[2]


def _enc(t):
    """cross-cell digest of an answer tuple: finite floats stay numbers (compared with tolerance), others by repr."""
    if t is None:
        return None
    return [x if isinstance(x, int) or math.isfinite(x) else repr(x) for x in t]


class Disc:
    """per-case state for the discrete kinds: frame, oracle cache, classifier helpers."""

    def __init__(self, spec, ctx):
        self.spec, self.ctx = spec, ctx
        self.df = build_df(spec)
        self.colmap = colmap_of(spec)
        self._tables = {}
        self.digest = []

    def tables(self, X, Y, Z):
        k = (X, Y, tuple(Z))
        if k not in self._tables:
            self._tables[k] = strata_tables(self.colmap, X, Y, Z)
        return self._tables[k]

    def call(self, fn, X, Y, Z, ztuple=False, df=None, **kw):
        Zarg = tuple(Z) if ztuple else list(Z)
        return self.ctx.call(fn, X, Y, Zarg, self.df if df is None else df, **kw)

    # -- neutralised re-run for the negative-lambda / empty-cell mechanism
    def neutralised_neglam(self, fn, X, Y, Z, lam_arg, lam, kw):
        """fill every empty cell of every stratum table with dof > 1 by one added row; the same call must then
        agree with the oracle on the augmented data."""
        extra = []
        base = {c["name"]: c["values"][0] for c in self.spec["cols"]}
        for (key, xv, yv, T) in self.tables(X, Y, Z):
            if (len(xv) - 1) * (len(yv) - 1) <= 1:
                continue
            for i, x in enumerate(xv):
                for j, y in enumerate(yv):
                    if T[i, j] == 0:
                        row = dict(base)
                        row[X], row[Y] = x, y
                        for z, s in zip(Z, key):
                            row[z] = s
                        extra.append(row)
        if not extra:
            return False
        df2 = build_df(self.spec, extra_rows=extra)
        want = oracle_cit(strata_tables(colmap_of(self.spec, extra), X, Y, Z), lam)
        if want["zero"]:
            return False
        r = self.ctx.call(fn, X, Y, list(Z), df2, boolean=False, **kw)
        if self.ctx.failed(r):
            return False
        try:
            got = read_triple(r)
        except Exception:
            return False
        return _close(got[0], want["stat"]) and got[2] == want["dof"]

    # -- neutralised re-run for the integer-column-label mechanism
    def neutralised_intcol(self, fn, X, Y, Z, lam, kw):
        """structural predicate: unconditional test, X or Y is an integer column label and X or Y is a categorical
        column; neutralised by renaming every column label to a str - the same call must then agree with the oracle."""
        dts = {c["name"]: c["dtype"] for c in self.spec["cols"]}
        if Z or all(isinstance(v, str) for v in (X, Y)) or not any(dts[v].startswith("cat") for v in (X, Y)):
            return False
        ren = {c["name"]: f"col_{c['name']}" for c in self.spec["cols"]}
        r = self.ctx.call(fn, ren[X], ren[Y], [], self.df.rename(columns=ren), boolean=False, **kw)
        if self.ctx.failed(r):
            return False
        try:
            got = read_triple(r)
        except Exception:
            return False
        want = oracle_cit(self.tables(X, Y, Z), lam)
        return got[2] == want["dof"] and (_close(got[0], want["stat"]) or want["undefined"] or want["negzero"])

    def judge(self, r, X, Y, Z, lam, label, fn=None, lam_arg=None, kw=None, **detail):
        """compare one (statistic, p, dof) answer with the oracle; returns the parsed triple or None."""
        ctx = self.ctx
        detail = dict(detail, X=X, Y=Y, Z=list(Z), lam=lam)
        if ctx.failed(r):
            key = f"c19:exception:{r.type}@{r.where}"
            if fn is not None and self.neutralised_intcol(fn, X, Y, Z, lam, kw or {}):
                key = K_INTCOL
            ctx.violation(key, f"{label} raised {r!r}" + ("; X / Y are integer column labels, Z is empty and X or Y is "
                          "categorical: the same call on the frame with the columns renamed to str agrees with the oracle"
                          if key == K_INTCOL else ""), **detail)
            return None
        try:
            got = read_triple(r)
        except Exception as e:
            ctx.violation("c19:malformed-result", f"{label}: {e}", **detail)
            return None
        want = oracle_cit(self.tables(X, Y, Z), lam)
        stat, p, dof = got
        if dof != want["dof"]:
            ctx.violation("c19:wrong-dof", f"{label}: dof {dof}, stratified test has {want['dof']}", got=got, **detail)
            return got
        ctx.ok()
        if want["undefined"]:
            # lambda < -1 with an empty cell: the statistic diverges; NaN or +inf (p NaN or 0) are both accepted
            ctx.note("undefined-statistic-accepted")
            if not (stat != stat or stat == math.inf):
                ctx.violation("c19:wrong-statistic", f"{label}: statistic {stat!r} where an empty cell makes the "
                              f"lambda={lam} statistic diverge", got=got, **detail)
            elif not (p != p or p == 0.0):
                ctx.violation("c19:wrong-pvalue", f"{label}: p {p!r} with a divergent statistic", got=got, **detail)
            else:
                ctx.ok()
            return got
        if not _close(stat, want["stat"]):
            if stat != stat and want["negzero"] and fn is not None and \
                    self.neutralised_neglam(fn, X, Y, Z, lam_arg, lam, kw or {}):
                ctx.violation(K_NEGLAM, f"{label}: statistic is NaN; the lambda={lam} statistic of the stratified test "
                              f"is {want['stat']!r} (finite: an empty cell contributes 0 for -1 < lambda < 0). Same call "
                              f"agrees with the oracle once the empty cells are filled", got=got, **detail)
            else:
                ctx.violation("c19:wrong-statistic", f"{label}: statistic {stat!r}, stratified lambda={lam} test gives "
                              f"{want['stat']!r}", got=got, **detail)
            return got
        ctx.ok()
        if want["dof"] == 0:
            if p != p and Z and stat == 0:
                ctx.violation(K_DOF0, f"{label}: every stratum has a single X or Y value (total dof 0, statistic 0) and "
                              f"the p-value is NaN instead of 1", got=got, **detail)
            elif not _close(p, 1.0, 1e-9, 0):
                ctx.violation("c19:wrong-pvalue", f"{label}: p {p!r} with dof 0, expected 1", got=got, **detail)
            else:
                ctx.ok()
            return got
        from scipy.stats import chi2
        if _close(p, want["p"], 1e-9, 0) or (stat == stat and _close(p, float(chi2.sf(stat, dof)), 1e-9, 0)):
            ctx.ok()
        else:
            ctx.violation("c19:wrong-pvalue", f"{label}: p {p!r}, chi2 survival of {want['stat']!r} at {dof} dof is "
                          f"{want['p']!r}", got=got, **detail)
        return got


def documented_names(doc):
    """(name, value) pairs of the lambda_ table in power_divergence's docstring."""
    out = []
    for m in re.finditer(r'^\s*"([A-Za-z\-]+)"\s+(-?\d+(?:/\d+)?)\s+"', doc or "", re.M):
        num = m.group(2)
        if "/" in num:
            a, b = num.split("/")
            val = float(a) / float(b)
        else:
            val = float(num)
        out.append((m.group(1), val))
    return out


def check_verdicts(ctx, call_bool, p, label, extra_alpha=None, **detail):
    """verdict == (returned p >= alpha) at fixed alphas, a drawn alpha, at the tie alpha = p and just above it."""
    alphas = list(ALPHAS) + ([extra_alpha] if extra_alpha is not None else [])
    if p == p:
        if 0.0 < p <= 1.0:
            alphas.append(p)
        if p < 1.0:
            alphas.append(float(np.nextafter(p, 2.0)))
    for a in alphas:
        v = call_bool(a)
        if ctx.failed(v):
            ctx.violation(f"c19:exception:{v.type}@{v.where}", f"{label} boolean=True raised {v!r}", alpha=a, **detail)
            continue
        if not isinstance(v, (bool, np.bool_)):
            ctx.violation("c19:malformed-result", f"{label} boolean=True returned {type(v).__name__} {v!r}", **detail)
            continue
        want = bool(p >= a)
        tie = " (tie: alpha == p)" if a == p else ""
        ctx.expect(bool(v) == want, "c19:verdict-differs-from-pvalue",
                   f"{label}: verdict {bool(v)} at significance_level={a!r} but the returned p-value is {p!r}{tie}",
                   **detail)


def run_disc(spec, ctx):
    import random

    from pgmpy.estimators import CITests as C
    D = Disc(spec, ctx)
    df = D.df
    indep = spec["kind"] == "indep"
    ctx.feature(f"kind:{spec['kind']}")
    for c in spec["cols"]:
        ctx.feature("dtype:" + c["dtype"])
        if c.get("categories") and len(c["categories"]) > len(dict.fromkeys(c["values"])):
            ctx.feature("unobserved-category")
    if not all(isinstance(c["name"], str) for c in spec["cols"]):
        ctx.feature("int-column-names")
    ctx.feature("index:" + spec["index"])
    if spec.get("mode"):
        ctx.feature("mode:" + spec["mode"])
    docnames = documented_names(C.power_divergence.__doc__)
    if not docnames:
        ctx.note("docstring-table-not-parsed")
    nontriv = False
    doc_done = False
    rrng = random.Random(spec["perm_seed"])
    for qi, pr in enumerate(spec["probes"]):
        X, Y, Z, zt = pr["X"], pr["Y"], pr["Z"], pr["ztuple"]
        tabs = D.tables(X, Y, Z)
        base = oracle_cit(tabs, 1.0)
        ctx.feature(f"|Z|={len(Z)}")
        if base["dof"] == 0:
            ctx.feature("total-dof-0")
        elif len(Z) or len(spec["cols"]) >= 3 or indep:
            nontriv = True
        if any((T == 0).any() for (_, _, _, T) in tabs):
            ctx.feature("empty-cell")
        if any(min(T.shape) == 1 for (_, _, _, T) in tabs) and Z:
            ctx.feature("single-value-stratum")
        if any(T.shape == (2, 2) for (_, _, _, T) in tabs):
            ctx.feature("yates-2x2")
        if len(tabs) > 1 and sum(T.sum() for (_, _, _, T) in tabs) / len(tabs) < 5:
            ctx.feature("sparse-strata")
        results = {}
        # ---- every named lambda, numeric lambdas, the default, the wrappers
        for name, lam in NAMED.items():
            r = D.call(C.power_divergence, X, Y, Z, zt, boolean=False, lambda_=name)
            results[name] = D.judge(r, X, Y, Z, lam, f"power_divergence(lambda_={name!r})", fn=C.power_divergence,
                                    lam_arg=name, kw={"lambda_": name})
        for lam in pr["lams"]:
            r = D.call(C.power_divergence, X, Y, Z, zt, boolean=False, lambda_=lam)
            results[lam] = D.judge(r, X, Y, Z, float(lam), f"power_divergence(lambda_={lam!r})",
                                   fn=C.power_divergence, lam_arg=lam, kw={"lambda_": lam})
        r = D.call(C.power_divergence, X, Y, Z, zt, boolean=False)
        D.judge(r, X, Y, Z, NAMED["cressie-read"], "power_divergence(default lambda_)", fn=C.power_divergence)
        for wname, lam in WRAPPERS.items():
            r = D.call(getattr(C, wname), X, Y, Z, zt, boolean=False)
            results[wname] = D.judge(r, X, Y, Z, lam, f"{wname}()", fn=getattr(C, wname))
        if not doc_done and results.get("pearson") is not None:
            doc_done = True
            for (dn, dv) in docnames:
                r = D.call(C.power_divergence, X, Y, Z, zt, boolean=False, lambda_=dn)
                if ctx.failed(r) and r.type == "ValueError" and "invalid string for lambda_" in r.msg:
                    # a name that only the docstring knows is a documentation matter, not part of the property
                    ctx.note(f"docstring-lambda-name-rejected:{dn}")
                else:
                    D.judge(r, X, Y, Z, dv, f"power_divergence(lambda_={dn!r}) [documented name]",
                            fn=C.power_divergence, lam_arg=dn, kw={"lambda_": dn})
        # ---- documented refusal: X or Y inside Z
        if qi == 0:
            r = D.call(C.power_divergence, X, Y, list(Z) + [X], zt, boolean=False)
            ctx.expect(ctx.failed(r) and r.type == "ValueError", "c19:x-in-z-not-refused",
                       f"power_divergence with X inside Z was not refused with ValueError: {r!r}", X=X, Z=Z)
        # ---- exactly independent tables: statistic 0, p 1
        if indep:
            for k, got in results.items():
                if got is None:
                    continue
                stat, p, dof = got
                if dof == 0 and p != p:
                    continue                                   # already reported under K_DOF0 by judge
                ctx.expect(abs(stat) <= 1e-9 and p >= 1 - 1e-4, "c19:independent-table-nonzero",
                           f"outer-product counts in every stratum but {k!r} gives statistic {stat!r}, p {p!r}",
                           X=X, Y=Y, Z=Z)
        # ---- relations: swap, row permutation, Z permutation
        perm = list(range(len(df)))
        rrng.shuffle(perm)
        dfp = df.iloc[perm]
        if rrng.random() < 0.5:
            dfp = dfp.reset_index(drop=True)
        Zp = list(Z)
        if len(Z) >= 2:
            while Zp == list(Z):
                rrng.shuffle(Zp)
        for lam_arg in pr["rel"]:
            a = results.get(lam_arg)
            if a is None:
                continue
            variants = [("c19:asymmetric-xy", "X and Y swapped", (Y, X, Z, df)),
                        ("c19:row-order-dependent", "rows permuted", (X, Y, Z, dfp))]
            if len(Z) >= 2:
                variants.append(("c19:z-order-dependent", f"Z given as {Zp}", (X, Y, Zp, df)))
            for key, what, (x2, y2, z2, d2) in variants:
                r = D.call(C.power_divergence, x2, y2, z2, zt, df=d2, boolean=False, lambda_=lam_arg)
                if ctx.failed(r):
                    ctx.violation(f"c19:exception:{r.type}@{r.where}", f"power_divergence with {what} raised {r!r}",
                                  X=X, Y=Y, Z=Z, lam=lam_arg)
                    continue
                try:
                    b = read_triple(r)
                except Exception as e:
                    ctx.violation("c19:malformed-result", f"power_divergence with {what}: {e}")
                    continue
                ctx.expect(same_triple(a, b), key, f"power_divergence(lambda_={lam_arg!r}) gives {a} but {b} with {what}",
                           X=X, Y=Y, Z=Z)
        # ---- verdicts
        bf = pr["boolfn"]
        if bf == "power_divergence":
            got = results.get(pr["boollam"])
            kw = {"lambda_": pr["boollam"]}
        else:
            got, kw = results.get(bf), {}
        if got is not None:
            fn = getattr(C, bf)
            check_verdicts(ctx, lambda a: D.call(fn, X, Y, Z, zt, boolean=True, significance_level=a, **kw),
                           got[1], f"{bf}({kw.get('lambda_', '')})", extra_alpha=pr.get("alpha"), X=X, Y=Y, Z=Z)
        D.digest.append([_enc(results.get(k)) for k in list(NAMED) + list(WRAPPERS)])
    ctx.nontrivial = nontriv
    ctx.xcell["triples"] = D.digest


# ------------------------------------------------------------------------------ pearsonr
def pearson_pair(r):
    if not isinstance(r, tuple) or len(r) != 2:
        raise ValueError(f"expected (coefficient, p_value), got {type(r).__name__} {r!r}")
    return float(r[0]), float(r[1])


TOL_MAX = 0.05


def pearson_matches(got, want):
    """got = (r, p) from pgmpy, want = oracle dict with tolerances derived from the conditioning of the stored data."""
    return (got[0] == got[0] and abs(got[0] - want["r"]) <= want["tol_r"]
            and got[1] == got[1] and abs(got[1] - want["p"]) <= want["tol_p"])


def classify_pearson(ctx, fn, X, Y, Z, spec, tf, want):
    """structural classifier for a pearsonr answer that differs from the oracle; None = not attributable.
    K_RANK : the raw design [1, Z] handed to numpy.linalg.lstsq(rcond=None) has sigma_min/sigma_max at or below the
             default rank cutoff eps*max(n, k+1) although the centred unit-variance design is well conditioned, and the
             same call with the Z columns centred and scaled to unit variance (X, Y untouched) agrees with the oracle.
    K_NOINT: the same call on column-centred data agrees with the oracle (regression without intercept)."""
    if not Z:
        return None
    try:
        cond = design_conditioning(transformed_colmap(spec, tf), Z)
        if cond["raw"] <= 10 * cond["cutoff"] and cond["std"] >= 1e-6:
            r2 = ctx.call(fn, X, Y, list(Z), build_df(spec, affine=tf, standardise=tuple(Z)), boolean=False)
            if not ctx.failed(r2) and pearson_matches(pearson_pair(r2), want):
                return K_RANK
        r2 = ctx.call(fn, X, Y, list(Z), build_df(spec, affine=tf, demean=True), boolean=False)
        if not ctx.failed(r2) and pearson_matches(pearson_pair(r2), want):
            return K_NOINT
    except Exception:
        pass
    return None


WHY = {K_RANK: "; sigma_min/sigma_max of the raw design [1, Z] is at or below numpy.lstsq's default rank cutoff and the "
               "same call with the Z columns centred and scaled to unit variance agrees with the oracle",
       K_NOINT: "; on column-centred data the same call agrees with the oracle"}


def run_cont(spec, ctx):
    from pgmpy.estimators import CITests as C
    df = build_df(spec)
    colmap = transformed_colmap(spec)
    ctx.feature("kind:cont")
    ctx.feature("means:" + spec["meanmode"])
    ctx.feature("units:" + spec["units"])
    digest = []
    nontriv = False
    for pr in spec["probes"]:
        X, Y, Z, zt = pr["X"], pr["Y"], pr["Z"], pr["ztuple"]
        Zarg = tuple(Z) if zt else list(Z)
        ctx.feature(f"pearsonr |Z|={len(Z)}")
        detail = dict(X=X, Y=Y, Z=Z)
        want = oracle_pearson(colmap, X, Y, Z, full=True)
        r = ctx.call(C.pearsonr, X, Y, Zarg, df, boolean=False)
        if ctx.failed(r):
            ctx.violation(f"c19:exception:{r.type}@{r.where}", f"pearsonr raised {r!r}", **detail)
            continue
        try:
            got = pearson_pair(r)
        except Exception as e:
            ctx.violation("c19:malformed-result", f"pearsonr: {e}", **detail)
            continue
        if Z:
            nontriv = True
        digest.append(_enc(got))
        base_ok = pearson_matches(got, want)
        if want["tol_r"] > TOL_MAX:
            ctx.note("pearsonr-too-ill-conditioned-to-call")
        elif base_ok:
            ctx.ok()
        else:
            key = classify_pearson(ctx, C.pearsonr, X, Y, Z, spec, None, want) or "c19:pearsonr:wrong-coefficient"
            ctx.violation(key, f"pearsonr gives (r, p) = {got}; Pearson's test on the residuals of the regressions of "
                          f"X and Y on Z with intercept gives ({want['r']!r}, {want['p']!r}) (tolerance {want['tol_r']:.1e} "
                          f"on r at |mean|/sd <= {want['rho']:.1e})" + WHY.get(key, ""), **detail)
        # affine invariance: v -> a*v + b on X, on Y, on a member of Z, on all variables together
        for mp in pr["maps"]:
            tf = mp["tf"]
            scales = [abs(math.log10(ab[0])) for ab in tf.values()]
            ctx.feature("affine:" + mp["label"])
            if max(scales) >= 4:
                ctx.feature("affine:scale-beyond-1e4")
            if any(abs(ab[1]) >= 1e3 for ab in tf.values()):
                ctx.feature("affine:shift-beyond-1e3")
            d2 = build_df(spec, affine=tf)
            cm2 = transformed_colmap(spec, tf)
            want2 = oracle_pearson(cm2, X, Y, Z, full=True)
            if want2["tol_r"] > TOL_MAX:
                ctx.note("pearsonr-too-ill-conditioned-to-call")
                continue
            if abs(want2["r"] - want["r"]) > 1e-7:
                ctx.note("affine-image-not-representable")          # cannot happen inside RHO_MAX; never a verdict
                continue
            r2 = ctx.call(C.pearsonr, X, Y, Zarg, d2, boolean=False)
            what = ", ".join(f"{v!r} -> {ab[0]:.3g}*v + {ab[1]:.3g}" for v, ab in tf.items())
            if ctx.failed(r2):
                ctx.violation(f"c19:exception:{r2.type}@{r2.where}", f"pearsonr after {what} raised {r2!r}", **detail)
                continue
            try:
                g2 = pearson_pair(r2)
            except Exception as e:
                ctx.violation("c19:malformed-result", f"pearsonr: {e}", **detail)
                continue
            if pearson_matches(g2, want2):
                ctx.ok()
                continue
            key = classify_pearson(ctx, C.pearsonr, X, Y, Z, spec, tf, want2) or \
                ("c19:pearsonr:affine-dependent" if base_ok else "c19:pearsonr:wrong-coefficient")
            ctx.violation(key, f"pearsonr gives {got} on the stored data and {g2} after {what}; the test on the "
                          f"transformed data is ({want2['r']!r}, {want2['p']!r}) (tolerance {want2['tol_r']:.1e} on r)"
                          + WHY.get(key, ""), **detail)
        check_verdicts(ctx, lambda a: ctx.call(C.pearsonr, X, Y, Zarg, df, boolean=True, significance_level=a),
                       got[1], "pearsonr", extra_alpha=pr.get("alpha"), **detail)
    ctx.nontrivial = nontriv
    ctx.xcell["pearson"] = digest


# ------------------------------------------------------------------------- PC trace check
def run_pc(spec, ctx):
    from pgmpy.estimators import CITests as C
    import importlib
    from pgmpy.estimators import PC as PCcls
    PCmod = importlib.import_module("pgmpy.estimators.PC")     # the module (the package attribute is the class)

    name, alpha = spec["ci"], spec["alpha"]
    ctx.feature("kind:pc")
    ctx.feature(f"pc:{name}")
    ctx.feature(f"pc:{spec['variant']}")
    df = build_df(spec)
    colmap = transformed_colmap(spec) if name == "pearsonr" else colmap_of(spec)
    est = ctx.call(PCcls, df)
    if ctx.failed(est):
        ctx.violation(f"c19:exception:{est.type}@{est.where}", f"PC(data) raised {est!r}")
        return
    trace = []
    orig = PCmod.CI_TESTS[name]

    def spy(X, Y, Z, *a, **kw):
        out = orig(X, Y, Z, *a, **kw)
        trace.append({"X": X, "Y": Y, "Z": Z, "args": a, "kw": kw, "out": out})
        return out

    PCmod.CI_TESTS[name] = spy
    try:
        kwargs = dict(ci_test=name, variant=spec["variant"], significance_level=alpha,
                      max_cond_vars=spec["max_cond_vars"], n_jobs=1, show_progress=False)
        if spec["via"] == "estimate":
            res = ctx.call(est.estimate, return_type="skeleton", **kwargs)
        else:
            res = ctx.call(est.build_skeleton, **kwargs)
    finally:
        PCmod.CI_TESTS[name] = orig
    if ctx.failed(res):
        ctx.violation(f"c19:exception:{res.type}@{res.where}", f"PC.{spec['via']} raised {res!r}", ci=name)
        return
    try:
        skel, sep = res
        edges = {frozenset(e) for e in skel.edges()}
        sep = dict(sep)
    except Exception as e:
        ctx.violation("c19:malformed-result", f"PC.{spec['via']} result unreadable: {e}")
        return
    if not trace:
        ctx.violation("c19:pc:test-not-called", f"PC.{spec['via']}(ci_test={name!r}) never called CI_TESTS[{name!r}]")
        return
    tabcache = {}
    calls_by_pair = {}
    for t in trace:
        X, Y, Z = t["X"], t["Y"], list(t["Z"])
        detail = dict(X=X, Y=Y, Z=Z, ci=name, alpha=alpha)
        if Z:
            ctx.nontrivial = True
        calls_by_pair.setdefault(frozenset((X, Y)), []).append(t)
        sl = t["kw"].get("significance_level")
        ctx.expect(sl == alpha, "c19:pc:significance-level-not-passed",
                   f"build_skeleton was given significance_level={alpha} but called the test with {sl!r}", **detail)
        ctx.expect(t["kw"].get("data") is est.data, "c19:pc:wrong-data", "CI test called on a different frame", **detail)
        slack = 1e-7
        if name == "pearsonr":
            wp = oracle_pearson(colmap, X, Y, Z, full=True)
            want_p, slack = wp["p"], (max(1e-7, wp["tol_p"]) if wp["tol_r"] <= TOL_MAX else 2.0)
        else:
            k = (X, Y, tuple(Z))
            if k not in tabcache:
                tabcache[k] = strata_tables(colmap, X, Y, Z)
            w = oracle_cit(tabcache[k], PC_NAMES[name])
            want_p = w["p"]
        if abs(want_p - alpha) < slack:
            ctx.note("pc-verdict-too-close-to-call")
            continue
        want = want_p >= alpha
        if bool(t["out"]) == want:
            ctx.ok()
            continue
        key = "c19:pc:wrong-verdict"
        if name != "pearsonr" and w["dof"] == 0 and Z and want and not t["out"]:
            key = K_DOF0
        elif name == "pearsonr" and Z:
            key = classify_pearson(ctx, C.pearsonr, X, Y, Z, spec, None, wp) or key
        ctx.violation(key, f"verdict {bool(t['out'])} consumed by the skeleton search for {X} _|_ {Y} | {Z}; the "
                      f"documented {name} test has p = {want_p!r} against significance_level {alpha}", **detail)
    # the function registered under the name computes the named test (boolean=False on up to 3 traced triples)
    picks = [trace[i] for i in sorted({0, len(trace) // 2, len(trace) - 1})]
    for t in picks:
        X, Y, Z = t["X"], t["Y"], list(t["Z"])
        r = ctx.call(orig, X, Y, t["Z"], est.data, boolean=False)
        label = f"PC.CI_TESTS[{name!r}]"
        if name == "pearsonr":
            want = oracle_pearson(colmap, X, Y, Z, full=True)
            try:
                if ctx.failed(r):
                    ctx.violation(f"c19:exception:{r.type}@{r.where}", f"{label} raised {r!r}")
                elif want["tol_r"] > TOL_MAX:
                    ctx.note("pearsonr-too-ill-conditioned-to-call")
                elif pearson_matches(pearson_pair(r), want):
                    ctx.ok()
                else:
                    key = classify_pearson(ctx, orig, X, Y, Z, spec, None, want) or "c19:pearsonr:wrong-coefficient"
                    ctx.violation(key, f"{label} gives {pearson_pair(r)}, intercept-residual Pearson test gives "
                                  f"({want['r']!r}, {want['p']!r})" + WHY.get(key, ""), X=X, Y=Y, Z=Z)
            except Exception as e:
                ctx.violation("c19:malformed-result", f"{label}: {e}")
        else:
            D = Disc.__new__(Disc)
            D.spec, D.ctx, D.colmap, D._tables = spec, ctx, colmap, tabcache
            D.judge(r, X, Y, Z, PC_NAMES[name], label)
    # what the search did with the verdicts
    nodes = [c["name"] for c in spec["cols"]]
    for i in range(len(nodes)):
        for j in range(i + 1, len(nodes)):
            pair = frozenset((nodes[i], nodes[j]))
            calls = calls_by_pair.get(pair, [])
            trues = [t for t in calls if t["out"]]
            detail = dict(pair=sorted(map(str, pair)), variant=spec["variant"], ncalls=len(calls))
            if trues:
                ctx.expect(pair not in edges, "c19:pc:verdict-ignored",
                           f"a test on {sorted(map(str, pair))} returned True (independent) but the edge was kept", **detail)
                ctx.expect(len(trues) == 1 and calls[-1] is trues[0], "c19:pc:search-continued-after-independence",
                           f"{len(trues)} True verdicts / further tests after a True verdict on one pair", **detail)
                got_sep = sep.get(pair, "missing")
                ctx.expect(got_sep != "missing" and list(got_sep) == list(trues[-1]["Z"]), "c19:pc:wrong-separating-set",
                           f"separating set recorded {got_sep!r}, the accepting test conditioned on {trues[-1]['Z']!r}",
                           **detail)
            else:
                ctx.expect(pair in edges, "c19:pc:edge-removed-without-independence",
                           f"edge {sorted(map(str, pair))} removed although no test on it returned True", **detail)
                ctx.expect(pair not in sep, "c19:pc:wrong-separating-set",
                           f"separating set recorded for a pair no test declared independent", **detail)
    ctx.note("pc-traced-calls", len(trace))


def run_case(spec, ctx):
    if spec["kind"] in ("disc", "indep"):
        run_disc(spec, ctx)
    elif spec["kind"] == "cont":
        run_cont(spec, ctx)
    else:
        run_pc(spec, ctx)
