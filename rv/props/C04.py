"""C04 - factor algebra is pointwise, order-independent and side-effect free.

Observe: DiscreteFactor.{product,sum,divide,marginalize,maximize,reduce,normalize,copy,__eq__,__ne__,
__mul__,__rmul__,__add__,__radd__,__truediv__}, factor_product, factor_sum_product, factor_divide
(plus the thin FactorDict wrappers) on generated factors; operand fingerprints before / after.
Oracle : a dictionary reference.  A factor is ({var: [state names]}, {frozenset((var, state)...): value});
every operation is the textbook pointwise definition on those dictionaries (0/0 = 0, x/0 = inf as the
divide docstring says).  Results are read through variables / state_names / values only and compared per
NAMED assignment, so axis order and state order never matter.
Monitor: class invariant of DiscreteFactor evaluated when the outermost public call on an object returns.
"""
import itertools
import math
import os

import numpy as np

from rv import gen, oracle

PLAN = {
    "quick": {"cases": 3000, "hashseeds": 3, "shards": 5, "timeout": 420, "min_nontrivial": 1200,
              "backends": ["numpy", "torch"], "torch_cases": 500, "torch_shards": 1, "torch_hashseeds": 1},
    "thorough": {"cases": 12000, "hashseeds": 8, "shards": 2, "timeout": 3000, "min_nontrivial": 4500,
                 "backends": ["numpy", "torch"], "torch_cases": 2000, "torch_shards": 2, "torch_hashseeds": 2},
}
if os.environ.get("RV_C04_DEV_CASES"):      # development aid (mutation runs): a PREFIX of the quick case list, so
    _n = int(os.environ["RV_C04_DEV_CASES"])  # anything it catches the full tier catches too
    for _t in PLAN.values():
        _t.update(cases=_n, torch_cases=max(20, _n // 6), min_nontrivial=_n // 3)
RULE = ("one case = a pool of 5 named variables (names: strings / ints / tuples; cards 1-4; state names identity / "
        "1-based / permuted ints / strings / tuples / mixed; thorough tier: 6 variables, cards 1-5, scopes up to 5, "
        "9-step histories) and 4 factors of 0-4 variables whose scopes are "
        "disjoint / nested / overlapping / equal-but-permuted / empty / random, in random axis order, values from "
        "a grid with exact zeros; a fixed battery of ~90 operation instances is run on them: unary "
        "(marginalize, maximize, reduce by state name, normalize; in-place and out-of-place; sum-out order; "
        "reduce/marginalize commuting; complete elimination), binary (product, sum, divide as method / operator / "
        "module helper, both operand orders, self-operands, 0/0 and x/0), scalars, n-ary product and "
        "sum-product, associativity, identity factor, equality under axis and state permutation against "
        "one-cell / renamed-state / different-scope variants, a 6-step random history mixing in-place and "
        "out-of-place calls, a 10-step (thorough 16) ONE-OBJECT sequence (in-place calls change the object, "
        "out-of-place calls with fresh arguments leave it alone and their results are re-read after every later "
        "in-place call, observers scope/get_cardinality/assignment/get_value/str/repr/hash/== in between, partners "
        "reused), and the FactorDict wrappers. Boundary classes: value profiles normal / mixed 1e-12..1e8 inside one "
        "table / all-tiny 1e-12 / all-huge 1e12 / extreme 1e-250..1e250 (f0) / python ints / two-valued with ties; "
        "scalars 0, 0.0, 1e-12, 1e8, multi-digit; variables argument as list / tuple / set / numpy array, "
        "[] / one / all variables; state names that are falsy or unusual ('', 0, None, (), False/True, 2.5, -1), one "
        "state list shared by all variables, default labels without state_names; a variable named ''; a "
        "cardinality of 10-12. non-trivial: some factor has >= 2 variables and some "
        "variable >= 2 states; distinct by digest of the whole spec")
ASSUMPTIONS = ["the dictionary reference (textbook definitions, 0/0=0, x/0=inf) is the specification",
               "tables whose magnitudes are far from 1 contain only values >= 0 and non-negative scalars (nothing "
               "cancels) and are compared with a purely relative tolerance of 1e-9; extreme exponents (+-250) sit in "
               "one operand only, so every finite expression is finite in any evaluation order; overflow to inf / "
               "underflow to 0 of a single IEEE multiplication is the same in the reference",
               "observers other than scope / get_cardinality / == are not judged (only required not to modify the "
               "factor); a generator as `variables` argument is not 'list, array-like' and is not used",
               "operands sharing a variable are built with the same state list (as the statement requires)",
               "comparisons at atol=rtol=1e-9 in float64; equality expectations are only asserted when every cell "
               "is at least 2x inside or outside atol=1e-8 + rtol=1e-5",
               "dividing by a python scalar is outside the domain (divide documents a DiscreteFactor divisor)",
               "__hash__ is not part of the statement"]
_DF = "pgmpy.factors.discrete.DiscreteFactor:DiscreteFactor."
REACH = [_DF + m for m in ("product", "sum", "divide", "marginalize", "maximize", "reduce", "normalize", "copy",
                           "__eq__", "__ne__", "__mul__", "__rmul__", "__add__", "__radd__", "__truediv__",
                           "identity_factor")] + [
    "pgmpy.factors.base:factor_product", "pgmpy.factors.base:factor_sum_product", "pgmpy.factors.base:factor_divide",
    "pgmpy.utils.state_name:StateNameMixin.store_state_names", "pgmpy.utils.state_name:StateNameMixin.add_state_names",
    "pgmpy.utils.state_name:StateNameMixin.del_state_names", "pgmpy.utils.state_name:StateNameMixin.get_state_no",
    "pgmpy.utils.compat_fns:einsum", "pgmpy.utils.compat_fns:copy", "pgmpy.utils.compat_fns:max",
    "pgmpy.factors.FactorDict:FactorDict.__add__", "pgmpy.factors.FactorDict:FactorDict.__mul__",
    "pgmpy.factors.FactorDict:FactorDict.dot",
]
REACH_REQUIRED = REACH[:26]
MONITORS_REQUIRED = ["invariant_evals"]
MANIFEST = {
    "text": "DiscreteFactor product / sum / divide / marginalize / maximize / reduce / normalize / copy / == and the "
            "module helpers agree with a dictionary reference per named assignment for every generated scope "
            "relation, axis order, state labelling and in-place mode; operands of out-of-place calls and right "
            "operands are bit-for-bit unchanged; results do not alias operands; the class invariant holds on exit "
            "of every outermost public call",
    "note": "trusted: the 60-line dictionary reference in this module, numpy for reading arrays",
    "technique": "reference-model monitor + class-invariant wrapper + operand fingerprints over generated workloads, "
                 "replicated across PYTHONHASHSEED values and the numpy / torch backends",
}

SCALARS = [0, 1, 2, 3, 0.5, 2.5, -1.5, 0.0, 1e-12, 1e8, 12345.678]
SCALARS_NONNEG = [0, 0.0, 1, 2, 3, 0.5, 2.5, 1e-12, 7e-9, 1e8, 12345.678]      # magnitude profiles: no cancellation
PROFILES = ["normal"] * 11 + ["mixed"] * 4 + ["tiny", "huge", "extreme", "ints", "dups"]


def _fsum(xs):
    xs = list(xs)
    try:
        return math.fsum(xs)
    except (OverflowError, ValueError):          # intermediate overflow / inf-inf: IEEE answer of a plain sum
        return float(sum(xs))


# =============================================================================== oracle
class OF:
    """Reference factor: states = {var: [names]}, tab = {frozenset((var, name)...): float}."""
    __slots__ = ("states", "tab")

    def __init__(self, states, tab):
        self.states = states
        self.tab = tab

    def scope(self):
        return list(self.states)

    def finite(self):
        return all(math.isfinite(x) for x in self.tab.values())

    def total(self):
        return _fsum(self.tab.values())


def _assignments(states):
    vs = list(states)
    for combo in itertools.product(*[states[v] for v in vs]):
        yield tuple(zip(vs, combo))


def o_from_values(vars_, states, flat):
    st = {v: list(states[v]) for v in vars_}
    tab = {}
    for k, asg in enumerate(_assignments(st)):      # row-major: last variable cycles fastest
        tab[frozenset(asg)] = float(flat[k])
    return OF(st, tab)


def o_values(A, vars_, states=None):
    """flat row-major value list of A for the given axis order / state lists (checker -> constructor)."""
    st = {v: list((states or A.states)[v]) for v in vars_}
    return [A.tab[frozenset(asg)] for asg in _assignments(st)]


def o_const(states, c=1.0):
    return OF(dict(states), {frozenset(a): float(c) for a in _assignments(states)})


def _div(x, y):
    if y == 0:
        if x == 0:
            return 0.0                       # documented: 0/0 = 0
        return math.inf if x > 0 else -math.inf
    return x / y


def o_binary(A, B, fn):
    st = {v: s for v, s in A.states.items()}
    for v, s in B.states.items():
        if v in st:
            assert st[v] == s, "generator bug: shared variable with different state lists"
        else:
            st[v] = s
    va, vb = list(A.states), list(B.states)
    tab = {}
    for asg in _assignments(st):
        a = dict(asg)
        ka = frozenset((v, a[v]) for v in va)
        kb = frozenset((v, a[v]) for v in vb)
        tab[frozenset(asg)] = fn(A.tab[ka], B.tab[kb])
    return OF(st, tab)


def o_mul(A, B):
    return o_binary(A, B, lambda x, y: x * y)


def o_add(A, B):
    return o_binary(A, B, lambda x, y: x + y)


def o_divide(A, B):
    return o_binary(A, B, _div)


def o_scalar(A, c, fn):
    return OF(dict(A.states), {k: fn(x, c) for k, x in A.tab.items()})


def o_eliminate(A, S, op):
    S = list(S)
    st = {v: s for v, s in A.states.items() if v not in S}
    groups = {}
    for k, x in A.tab.items():
        kk = frozenset(p for p in k if p[0] not in S)
        groups.setdefault(kk, []).append(x)
    return OF(st, {k: (_fsum(xs) if op == "sum" else max(xs)) for k, xs in groups.items()})


def o_reduce(A, asg):
    asg = dict(asg)
    st = {v: s for v, s in A.states.items() if v not in asg}
    fixed = set(asg.items())
    tab = {}
    for k, x in A.tab.items():
        if fixed <= k:
            tab[frozenset(p for p in k if p[0] not in asg)] = x
    return OF(st, tab)


def o_normalize(A):
    t = A.total()
    return OF(dict(A.states), {k: x / t for k, x in A.tab.items()})


def o_eq(A, B):
    """True / False / None (None = too close to the documented tolerance to call)."""
    if set(A.states) != set(B.states):
        return False
    for v in A.states:
        if set(A.states[v]) != set(B.states[v]) or len(A.states[v]) != len(B.states[v]):
            return False
    verdict = True
    for k, x in A.tab.items():
        y = B.tab[k]
        if x == y:
            continue
        if not (math.isfinite(x) and math.isfinite(y)):
            return None
        d = abs(x - y)
        if d > 2 * (1e-8 + 1e-5 * max(abs(x), abs(y))):
            return False
        if d > 0.5 * (1e-8 + 1e-5 * min(abs(x), abs(y))):
            verdict = None
    return verdict


# ============================================================================ generator
def _scale(rng, profile):
    if profile == "mixed":
        return 10.0 ** rng.choice([-12, -9, -6, -3, 0, 0, 3, 6, 8])
    if profile == "tiny":
        return 10.0 ** rng.choice([-12, -11, -10, -9])
    if profile == "huge":
        return 10.0 ** rng.choice([8, 9, 10, 12])
    if profile == "extreme":                      # +-250: one extreme operand never overflows a finite expression
        return 10.0 ** rng.choice([-250, -150, -40, 0, 40, 150, 250])
    return 1.0


def _rand_values(rng, size, zero_p, profile="normal"):
    if rng.random() < 0.04:
        return [1.0] * size
    if profile == "ints":                          # python ints, not floats
        vals = [0 if rng.random() < zero_p else rng.randint(1, 5) for _ in range(size)]
    elif profile == "dups":                        # two distinct values only: ties everywhere
        two = [rng.choice(gen.GRID), rng.choice(gen.GRID) * 2]
        vals = [0.0 if rng.random() < zero_p else rng.choice(two) for _ in range(size)]
    else:
        vals = [0.0 if rng.random() < zero_p else rng.choice(gen.GRID) * (0.5 + rng.random()) * _scale(rng, profile)
                for _ in range(size)]
    if all(x == 0 for x in vals):
        vals[rng.randrange(size)] = 1 if profile == "ints" else rng.choice(gen.GRID)
    return vals


def _size(card, vs):
    n = 1
    for v in vs:
        n *= card[v]
    return n


def _rand_factor(rng, card, vs, zero_p=None, profile="normal"):
    vs = list(vs)
    rng.shuffle(vs)
    if zero_p is None:
        zero_p = rng.choice([0.0, 0.1, 0.25, 0.4])
    return {"vars": vs, "values": _rand_values(rng, _size(card, vs), zero_p, profile)}


STATE_KINDS = gen.STATE_KINDS + ("falsy", "shared")


def _states_for(rng, v, k, kind):
    """gen.state_names_for plus: falsy / unusual names ('', 0, None, (), False ...) and one list shared by all variables."""
    if kind == "falsy":
        if k == 2 and rng.random() < 0.3:
            return [False, True]
        base = ["", 0, None, (), "x", 2.5, -1]
        if k <= len(base):
            return rng.sample(base, k)
        kind = "str"
    if kind == "shared":
        return (["lo", "mid", "hi", "top"] + [f"s{i}" for i in range(4, k)])[:k]
    return gen.state_names_for(rng, v, k, kind)


def _subset(rng, vs, lo=0, hi=None):
    vs = list(vs)
    hi = len(vs) if hi is None else min(hi, len(vs))
    lo = min(lo, hi)
    return rng.sample(vs, rng.randint(lo, hi))


def _pair_scopes(rng, pool, rel, mx=4):
    n = len(pool)
    if rel == "disjoint":
        p = pool[:]
        rng.shuffle(p)
        ka = rng.randint(1, 3)
        kb = rng.randint(1, min(mx, n - ka))
        return p[:ka], p[ka:ka + kb]
    if rel == "nested":
        a = _subset(rng, pool, 2, mx)
        b = _subset(rng, a, 0, len(a) - 1)
        return (a, b) if rng.random() < 0.5 else (b, a)
    if rel == "overlap":
        p = pool[:]
        rng.shuffle(p)
        ks = rng.randint(1, 2)
        ka = rng.randint(1, 2)
        kb = rng.randint(1, min(2, n - ks - ka))
        sh = p[:ks]
        return sh + p[ks:ks + ka], sh + p[ks + ka:ks + ka + kb]
    if rel == "equal":
        a = _subset(rng, pool, 1, mx)
        return a, a[:]
    if rel == "empty":
        return [], _subset(rng, pool, 0, mx)
    return _subset(rng, pool, 0, mx), _subset(rng, pool, 0, mx)


def _gen_unary(rng, card, f):
    vs = f["vars"]
    mode = rng.random()
    if mode < 0.15:
        S = list(vs)                                   # complete elimination
        rng.shuffle(S)
    elif mode < 0.22:
        S = []
    elif mode < 0.32:
        S = _subset(rng, vs, 1, 1)                     # exactly one variable
    else:
        S = _subset(rng, vs, 1 if vs else 0)
    cut = rng.randint(0, len(S))
    rest = [v for v in vs if v not in S]
    R = _subset(rng, rest, 1 if rest else 0) if rng.random() < 0.8 else _subset(rng, vs, 0)
    if rng.random() < 0.1:
        R = list(vs)
        rng.shuffle(R)
    return {"S": S, "cut": cut, "M": _subset(rng, vs, 0), "R": [[v, rng.randrange(card[v])] for v in R],
            "S2": [v for v in _subset(rng, vs, 0) if v not in R],
            "forms": [rng.choice(["list", "list", "tuple", "set", "array"]) for _ in range(4)]}


def _gen_eq(rng, card, f):
    vs = f["vars"]
    axis = list(vs)
    rng.shuffle(axis)
    sperm = []
    for v in vs:
        p = list(range(card[v]))
        rng.shuffle(p)
        sperm.append([v, p])
    size = _size(card, vs)
    return {"axis": axis, "sperm": sperm, "cell": rng.randrange(size),
            "delta": rng.choice([1e-3, -1e-3, 5e-2, 0.5]), "tiny": rng.choice([1e-10, -1e-10, 1e-12]),
            "rvar": rng.randrange(len(vs)) if vs else None, "rstate": rng.random()}


def _gen_chain(rng, pool, card, factors, steps=6, scalars=SCALARS):
    scope = list(factors[0]["vars"])
    out = []
    for _ in range(steps):
        ops = ["product", "product", "sum", "divide", "scalar"]
        if scope:
            ops += ["marg", "marg", "max", "reduce", "reduce"]
        ops += ["norm"]
        op = rng.choice(ops)
        inplace = rng.random() < 0.5
        st = {"op": op, "inplace": inplace, "style": rng.choice(["method", "operator"])}
        if op in ("product", "sum"):
            j = rng.randrange(len(factors))
            st["j"] = j
            for v in factors[j]["vars"]:
                if v not in scope:
                    scope.append(v)
        elif op == "divide":
            st["g"] = _rand_factor(rng, card, _subset(rng, scope, 0), zero_p=rng.choice([0.0, 0.0, 0.2]))
        elif op == "scalar":
            st["c"] = rng.choice(scalars)
            st["kind"] = rng.choice(["mul", "add"])
        elif op in ("marg", "max"):
            S = _subset(rng, scope, 1)
            st["S"] = S
            scope = [v for v in scope if v not in S]
        elif op == "reduce":
            R = _subset(rng, scope, 1, 2)
            st["R"] = [[v, rng.randrange(card[v])] for v in R]
            scope = [v for v in scope if v not in R]
        out.append(st)
    return out


OBSERVERS = ["scope", "get_cardinality", "assignment", "str", "hash", "eq", "get_value"]


def _gen_reuse(rng, pool, card, factors, steps, scalars):
    """ONE factor object serves the whole sequence: in-place calls change it, out-of-place calls (different
    arguments every time) leave it alone and their results are kept and re-read later, observers in between."""
    scope = list(factors[0]["vars"])
    out = []
    for _ in range(steps):
        r = rng.random()
        mode = "observe" if r < 0.22 else ("inplace" if r < 0.58 else "outofplace")
        if mode == "observe":
            out.append({"mode": mode, "what": rng.choice(OBSERVERS)})
            continue
        ops = ["product", "sum", "divide", "scalar", "scalar", "norm"]
        if scope:
            ops += ["marg", "max", "reduce", "reduce"]
        if not scope and mode == "inplace":
            ops = ["product", "product", "sum", "scalar"]
        op = rng.choice(ops)
        st = {"mode": mode, "op": op, "inplace": mode == "inplace", "style": rng.choice(["method", "operator"])}
        after = list(scope)
        if op in ("product", "sum"):
            st["j"] = rng.randrange(len(factors))
            after += [v for v in factors[st["j"]]["vars"] if v not in after]
        elif op == "divide":
            st["g"] = _rand_factor(rng, card, _subset(rng, scope, 0), zero_p=rng.choice([0.0, 0.0, 0.2]))
        elif op == "scalar":
            st["c"] = rng.choice(scalars)
            st["kind"] = rng.choice(["mul", "mul", "add"])
        elif op in ("marg", "max"):
            st["S"] = _subset(rng, scope, 0 if mode == "outofplace" else 1, max(1, len(scope) - 1) if mode == "inplace" else None)
            after = [v for v in scope if v not in st["S"]]
        elif op == "reduce":
            Rv = _subset(rng, scope, 0 if mode == "outofplace" else 1, 2)
            st["R"] = [[v, rng.randrange(card[v])] for v in Rv]
            after = [v for v in scope if v not in Rv]
        if mode == "inplace":
            scope = after
        out.append(st)
    return out


def _force_zero_over_zero(rng, card, f, g):
    """Zero one cell of the divisor g and every cell of the dividend f that agrees with it (0/0 must give 0)."""
    gi = rng.randrange(len(g["values"]))
    hit = []
    for k, combo in enumerate(itertools.product(*[range(card[v]) for v in f["vars"]])):
        a = dict(zip(f["vars"], combo))
        j = 0
        for v in g["vars"]:
            j = j * card[v] + a[v]
        if j == gi:
            hit.append(k)
    if len(hit) < len(f["values"]) or len(f["values"]) == 1:
        g["values"][gi] = 0.0
        for k in hit:
            f["values"][k] = 0.0
        if all(x == 0 for x in f["values"]) and len(f["values"]) > 1:
            f["values"][(hit[0] + 1) % len(f["values"])] = 1.0


def gen_case(seed, idx, tier):
    if tier == "thorough" and idx == 0:
        return {"kind": "repo-tests"}       # the repo's own factor tests under the class-invariant monitor
    rng = gen.rng_for("C04", seed, idx)
    big = tier == "thorough"
    mx = 5 if big else 4                                # largest scope of one factor
    vkind = rng.choice(["str", "str", "str", "word", "int", "tuple"])
    if vkind == "str":
        pool = ["a", "b", "c", "d", "e", "f"]
    elif vkind == "word":
        pool = ["rain", "Sprinkler", "", "x10", "_z", "two words"]          # '' is a (falsy) name too
    elif vkind == "int":
        pool = [0, 1, 2, 3, 7, 11]
    else:
        pool = [("t", 0), ("t", 1), ("u", 0), ("u", 1), ("w", 5), ("w", 6)]
    pool = pool[:6 if big else 5]
    rng.shuffle(pool)
    while True:
        cards = [rng.choice((1, 2, 2, 2, 3, 3, 4, 5) if big else (1, 2, 2, 2, 3, 3, 4)) for _ in pool]
        tot = 1
        for c in cards:
            tot *= c
        if tot <= (1200 if big else 576):
            break
    if rng.random() < 0.08:                               # one multi-digit cardinality
        while True:
            cards = [rng.choice((1, 2, 2, 3)) for _ in pool]
            cards[rng.randrange(len(cards))] = rng.choice((10, 11, 12))
            tot = 1
            for c in cards:
                tot *= c
            if tot <= (1200 if big else 576):
                break
    skind = rng.choice(STATE_KINDS)
    states = [_states_for(rng, v, c, skind) for v, c in zip(pool, cards)]
    card = dict(zip(pool, cards))
    profile = rng.choice(PROFILES)
    scalars = SCALARS if profile in ("normal", "ints", "dups") else SCALARS_NONNEG
    # "extreme" magnitudes (1e-250 .. 1e250) go into f0 only: every finite expression then stays finite in any
    # evaluation order, so the reference stays order-independent
    pf = (lambda i: profile if (profile != "extreme" or i == 0) else "normal")
    rel = rng.choice(["disjoint", "nested", "nested", "overlap", "overlap", "equal", "empty", "random", "random"])
    sa, sb = _pair_scopes(rng, pool, rel, mx)
    f0 = _rand_factor(rng, card, sa, profile=pf(0))
    f1 = _rand_factor(rng, card, sb, profile=pf(1))
    # f2: a divisor for f0 (scope inside f0's), zeros so that 0/0 and x/0 both occur
    f2 = _rand_factor(rng, card, _subset(rng, f0["vars"], 0), zero_p=rng.choice([0.0, 0.2, 0.4]), profile=pf(2))
    if rng.random() < 0.35:
        _force_zero_over_zero(rng, card, f0, f2)
    f3 = _rand_factor(rng, card, _subset(rng, pool, 0, mx), profile=pf(3))
    factors = [f0, f1, f2, f3]
    union = [v for v in pool if any(v in f["vars"] for f in factors)]
    ks = sorted(rng.sample(range(4), rng.randint(1, 4)))
    if rng.random() < 0.15 and profile != "extreme":
        ks.append(rng.choice(ks))                       # the same factor twice in an n-ary product
    nun = [v for v in pool if any(v in factors[k]["vars"] for k in ks)]
    return {
        "vkind": vkind, "skind": skind, "rel": rel, "profile": profile,
        "implicit_names": skind == "id" and rng.random() < 0.5,        # build without state_names (default labels)
        "pool": [[v, s] for v, s in zip(pool, states)],
        "factors": factors,
        "unary": [_gen_unary(rng, card, f0), _gen_unary(rng, card, f1)],
        "eq": [_gen_eq(rng, card, f0), _gen_eq(rng, card, f3)],
        "scalars": [rng.choice(scalars), rng.choice(scalars)],
        "nary": {"ks": ks, "out": _subset(rng, nun, 0), "out2": _subset(rng, union, 0),
                 "assoc": rng.sample(range(4), 3)},
        "chain": _gen_chain(rng, pool, card, factors, steps=9 if big else 6, scalars=scalars),
        "reuse": _gen_reuse(rng, pool, card, factors, 16 if big else 10, scalars),
    }


# ===================================================================== class invariant
class InvariantMonitor:
    METHODS = ("product", "sum", "divide", "marginalize", "maximize", "reduce", "normalize", "copy",
               "identity_factor", "__mul__", "__rmul__", "__add__", "__radd__", "__truediv__", "__eq__")

    def __init__(self):
        self.depth = {}
        self.evals = 0
        self.violations = []
        self.installed = []

    @staticmethod
    def check(obj):
        """None if the invariant holds for obj, else a description."""
        vs = list(obj.variables)
        card = [int(c) for c in obj.cardinality]
        if len(vs) != len(card):
            return f"len(variables)={len(vs)} != len(cardinality)={len(card)}"
        if len(set(vs)) != len(vs):
            return f"duplicate variables {vs!r}"
        shp = tuple(int(s) for s in obj.values.shape)
        if shp != tuple(card):
            return f"values.shape={shp} != cardinality={card}"
        for v, c in zip(vs, card):
            if v not in obj.state_names:
                return f"no state names for {v!r}"
            names = list(obj.state_names[v])
            if len(names) != c:
                return f"{len(names)} state names for {v!r} of cardinality {c}"
            if obj.name_to_no.get(v) != {nm: i for i, nm in enumerate(names)}:
                return f"name_to_no[{v!r}] does not invert state_names"
            if obj.no_to_name.get(v) != {i: nm for i, nm in enumerate(names)}:
                return f"no_to_name[{v!r}] does not enumerate state_names"
        return None

    def install(self):
        import functools

        from pgmpy.factors.discrete import DiscreteFactor
        mon = self

        def wrap(name, fn):
            @functools.wraps(fn)
            def wrapper(slf, *a, **k):
                key = id(slf)
                d0 = mon.depth.get(key, 0)
                pre_ok = False
                if not d0:
                    # Only an operation that *received* well-formed factors can be blamed for a malformed one
                    # (the constructors do not validate e.g. the number of state names; the repo's own test
                    # fixtures contain such objects).
                    try:
                        pre_ok = all(mon.check(o) is None for o in (slf,) + a if isinstance(o, DiscreteFactor))
                    except Exception:
                        pre_ok = False
                mon.depth[key] = d0 + 1
                try:
                    ret = fn(slf, *a, **k)
                finally:
                    if d0:
                        mon.depth[key] = d0
                    else:
                        del mon.depth[key]
                if pre_ok:
                    for what, o in (("self", slf), ("result", ret)):
                        if isinstance(o, DiscreteFactor) and id(o) not in mon.depth:
                            mon.evals += 1
                            try:
                                bad = mon.check(o)
                            except Exception as e:          # unreadable object = broken invariant
                                bad = f"cannot evaluate: {type(e).__name__}: {e}"
                            if bad and len(mon.violations) < 50:
                                mon.violations.append({"method": name, "on": what, "cls": type(o).__name__,
                                                       "what": bad})
                return ret
            return wrapper

        for m in self.METHODS:
            raw = DiscreteFactor.__dict__[m]
            setattr(DiscreteFactor, m, wrap(m, raw))
            self.installed.append((DiscreteFactor, m, raw))
        # `__div__ = __truediv__` was bound at class creation; keep it pointing at the monitored one
        DiscreteFactor.__div__ = DiscreteFactor.__truediv__

    def drain(self):
        v, self.violations = self.violations, []
        return v


_MON = None


def setup(ctx):
    global _MON
    _MON = InvariantMonitor()
    _MON.install()


def teardown(ctx):
    return {"invariant_evals": _MON.evals if _MON else 0}


# ============================================================================== checker
def _fp(f):
    """Bit-level fingerprint of everything a factor consists of."""
    from rv.build import to_np
    a = np.ascontiguousarray(to_np(f.values))

    def maps(d):
        return tuple(sorted((repr(k), tuple(sorted((repr(x), repr(y)) for x, y in m.items()))) for k, m in d.items()))
    return (tuple(map(repr, f.variables)), tuple(int(c) for c in f.cardinality),
            tuple(sorted((repr(k), tuple(map(repr, s))) for k, s in f.state_names.items())),
            maps(f.name_to_no), maps(f.no_to_name), str(a.dtype), tuple(a.shape), a.tobytes())


def _fp_diff(a, b):
    names = ("variables", "cardinality", "state_names", "name_to_no", "no_to_name", "dtype", "shape", "values")
    return [n for n, x, y in zip(names, a, b) if x != y]


def _close_rel(a, b, rtol=1e-9):
    """named_close with a purely RELATIVE tolerance (tables whose magnitudes are far from 1; all values >= 0,
    so nothing cancels and 1e-9 relative is ~1e6 ulp of slack)."""
    if set(a) != set(b):
        return f"assignment sets differ: unexpected {list(set(a) - set(b))[:2]}, missing {list(set(b) - set(a))[:2]}"
    for k in a:
        x, y = a[k], b[k]
        if x == y or (math.isnan(x) and math.isnan(y)):
            continue
        if math.isnan(x) or math.isnan(y) or abs(x - y) > rtol * max(abs(x), abs(y)):
            return f"{sorted(k, key=repr)}: got {x!r}, expected {y!r}"
    return None


class Runner:
    def __init__(self, ctx, states, profile="normal", implicit=False):
        self.ctx = ctx
        self.states = states            # {var: [names]} of the pool
        self.totals = []
        self.ops = 0
        self.profile = profile
        self.relative = profile in ("mixed", "tiny", "huge", "extreme")
        self.implicit = implicit

    def close(self, a, b):
        return _close_rel(a, b) if self.relative else oracle.named_close(a, b, **self.ctx.tol())

    # -- building real factors
    def mk(self, A, vars_=None, states=None):
        from pgmpy.factors.discrete import DiscreteFactor
        vars_ = list(A.states) if vars_ is None else list(vars_)
        st = states or A.states
        vals = o_values(A, vars_, st)
        if self.profile == "ints" and all(float(x).is_integer() for x in vals):
            vals = [int(x) for x in vals]                   # python ints straight into the constructor
        else:
            vals = np.array(vals, dtype=float)
        if self.implicit and all(list(st[v]) == list(range(len(st[v]))) for v in vars_):
            return DiscreteFactor(vars_, [len(st[v]) for v in vars_], vals)       # default labels 0..k-1
        return DiscreteFactor(vars_, [len(st[v]) for v in vars_], vals, state_names={v: list(st[v]) for v in vars_})

    # -- judging one returned / updated factor
    def judge(self, got, exp, label, op, **detail):
        from pgmpy.factors.discrete import DiscreteFactor
        from rv.build import to_np
        ctx = self.ctx
        try:
            if not isinstance(got, DiscreteFactor):
                return ctx.violation(f"c04:wrong-type:{op}", f"{label}: returned {type(got).__name__}", **detail)
            vs = list(got.variables)
            if len(set(vs)) != len(vs) or set(vs) != set(exp.states):
                return ctx.violation(f"c04:wrong-scope:{op}", f"{label}: scope {vs!r}, expected {list(exp.states)!r}",
                                     **detail)
            for v in vs:
                if list(got.state_names[v]) != list(exp.states[v]):
                    return ctx.violation(f"c04:state-names:{op}", f"{label}: state names of {v!r} are "
                                         f"{got.state_names[v]!r}, operand has {exp.states[v]!r}", **detail)
            card = [int(c) for c in got.cardinality]
            if card != [len(exp.states[v]) for v in vs]:
                return ctx.violation(f"c04:cardinality:{op}", f"{label}: cardinality {card} for scope {vs!r}, "
                                     f"expected {[len(exp.states[v]) for v in vs]}", **detail)
            a = oracle.factor_named(got, to_np)
        except Exception as e:
            return ctx.violation(f"c04:malformed-result:{op}", f"{label}: cannot read result: {type(e).__name__}: {e}",
                                 **detail)
        diff = self.close(a, exp.tab)
        if diff:
            return ctx.violation(f"c04:wrong-{op}", f"{label}: {diff}", **detail)
        ctx.ok()
        self.totals.append(round(_fsum(x for x in a.values() if math.isfinite(x)), 9))
        return True

    def unchanged(self, before, label, op, phase=""):
        """before: list of (name, obj, fingerprint)."""
        for name, obj, fb in before:
            try:
                fa = _fp(obj)
            except Exception as e:
                self.ctx.violation(f"c04:operand-modified:{op}", f"{label}: operand {name} unreadable afterwards "
                                   f"({type(e).__name__}: {e})")
                continue
            if fa != fb:
                self.ctx.violation(f"c04:{'aliasing' if phase else 'operand-modified'}:{op}",
                                   f"{label}: operand {name} changed{phase}: {_fp_diff(fb, fa)}")
            else:
                self.ctx.ok()

    def apply(self, op, label, fn, exp, keep=(), target=None, alias=True, classify=None, **detail):
        """Run one operation instance.
        fn: zero-argument callable invoking pgmpy; exp: oracle result; keep: [(name, obj)] operands that must not
        change; target: the object updated in place (then fn must return None); alias: scribble over the result
        afterwards and make sure no kept operand changes.  Returns the result factor or None."""
        ctx = self.ctx
        self.ops += 1
        self.drain_invariant()
        before = [(n, o, _fp(o)) for n, o in keep]
        cache = []
        symptom = ["malformed"]          # how the failure showed: "exception:<Type>" / "malformed" / "wrong" (values)

        def classified():
            if not cache:
                cache.append(_symptom_ok(classify(), symptom[0]) if classify else None)
            return cache[0]
        r = ctx.call(fn)
        if ctx.failed(r):
            symptom[0] = f"exception:{r.type}"
            self.drain_invariant(label, classified)
            ctx.violation(classified() or f"c04:exception:{r.type}@{r.where}", f"{label} raised {r!r}", **detail)
            return None
        if target is not None:
            ctx.expect(r is None, f"c04:inplace-return:{op}", f"{label}: in-place call returned {type(r).__name__}")
            got = target
        else:
            got = r
            for n, o in keep:
                if got is o:
                    ctx.violation(f"c04:aliasing:{op}", f"{label}: out-of-place call returned its operand {n}")
        nv = len(ctx.violations)
        good = self.judge(got, exp, label, op, **detail)
        if good is not True and len(ctx.violations) > nv:
            if ctx.violations[-1]["key"].startswith("c04:wrong-"):
                symptom[0] = "wrong"
            if classified():
                ctx.violations[-1]["key"] = classified()
        self.drain_invariant(label, classified)
        self.unchanged(before, label, op)
        if good is not True:
            return None
        if target is None and alias and before:
            try:
                vals = got.values
                if hasattr(vals, "shape") and hasattr(vals, "__setitem__"):
                    vals[...] = -7.0
                    self.unchanged(before, label, op, phase=" when the result's values were overwritten")
                    return None
            except Exception:
                pass
        return got

    def drain_invariant(self, label="(between operations)", classified=None):
        if _MON is None:
            return
        for v in _MON.drain():
            key = (classified() if classified else None) or f"c04:invariant:{v['method']}"
            self.ctx.violation(key, f"{label}: class invariant broken on exit of {v['cls']}.{v['method']} "
                               f"({v['on']}): {v['what']}")

    def eq(self, F, G, A, B, label):
        """F == G against the dictionary verdict (skipped when too close to the tolerance)."""
        ctx = self.ctx
        want = o_eq(A, B)
        if want is None:
            ctx.note("eq-skipped-near-tolerance")
            return
        self.ops += 1
        before = [("left", F, _fp(F)), ("right", G, _fp(G))]
        r = ctx.call(lambda: F == G)
        if ctx.failed(r):
            return ctx.violation(f"c04:exception:{r.type}@{r.where}", f"{label}: == raised {r!r}")
        if not isinstance(r, (bool, np.bool_)):
            return ctx.violation("c04:eq-type", f"{label}: == returned {type(r).__name__}")
        if bool(r) == want:
            ctx.ok()
        else:
            ctx.violation("c04:wrong-eq-" + ("false-negative" if want else "false-positive"),
                          f"{label}: == returned {bool(r)}, dictionaries say {want}", left=_show(F), right=_show(G))
        r2 = ctx.call(lambda: F != G)
        if ctx.failed(r2):
            ctx.violation(f"c04:exception:{r2.type}@{r2.where}", f"{label}: != raised {r2!r}")
        else:
            ctx.expect(bool(r2) == (not bool(r)), "c04:ne-inconsistent", f"{label}: != returned {r2!r} while == returned {r!r}")
        self.unchanged(before, label, "eq")


def _show(f):
    try:
        from rv.build import to_np
        return {"vars": list(f.variables), "states": {repr(k): v for k, v in f.state_names.items()},
                "values": np.asarray(to_np(f.values)).ravel().tolist()[:64]}
    except Exception as e:
        return f"<unreadable {e}>"


def _named(states, pairs):
    """[(var, state index)] -> [(var, state name)]"""
    return [(v, states[v][i]) for v, i in pairs]


# ------------------------------------------------------------------------------ batteries
def _as_form(vs, form):
    """the `variables` argument is documented as "list, array-like": list / tuple / set / numpy array of names"""
    vs = list(vs)
    if form == "tuple":
        return tuple(vs)
    if form == "set":
        return set(vs)
    if form == "array" and vs and all(isinstance(v, str) for v in vs):
        return np.array(vs)
    return vs


def unary_battery(R, A, u, tag):
    S, cut, M = list(u["S"]), u["cut"], list(u["M"])
    red = _named(R.states, [tuple(p) for p in u["R"]])
    forms = u.get("forms", ["list"] * 4)
    F = R.mk(A)
    for n, (op, S_) in enumerate((("marginalize", S), ("maximize", M))):
        exp = o_eliminate(A, S_, "sum" if op == "marginalize" else "max")
        cl = (lambda S_=S_: _max_classify(R, A, S_)) if op == "maximize" else None
        f1, f2 = forms[2 * n], forms[2 * n + 1]
        R.ctx.feature(f"variables-as:{f1}")
        R.apply(op, f"{tag}.{op}({f1} {S_!r}, inplace=False)", lambda: getattr(F, op)(_as_form(S_, f1), inplace=False),
                exp, keep=[("self", F)], classify=cl, S=S_)
        G = R.mk(A)
        R.apply(op, f"{tag}.{op}({f2} {S_!r}, inplace=True)", lambda: getattr(G, op)(_as_form(S_, f2)), exp, target=G,
                classify=cl, S=S_)
    # sum-out order: S in two steps, both orders, must equal the one-step answer (judged against the oracle)
    if len(S) >= 2:
        for op, how in (("marginalize", "sum"), ("maximize", "max")):
            exp = o_eliminate(A, S, how)
            for turn, (first, second) in enumerate(((S[:cut], S[cut:]), (S[cut:], S[:cut]))):
                G = R.mk(A)
                mid = o_eliminate(A, first, how)
                r1 = R.apply(op, f"{tag}.{op}({first!r}, inplace=False) [first of two steps]",
                             lambda: getattr(G, op)(list(first), inplace=False), mid, keep=[("self", G)], alias=False,
                             classify=(lambda: _max_classify(R, A, first)) if op == "maximize" else None)
                if r1 is None:
                    continue
                cl = (lambda: _max_classify(R, mid, second)) if op == "maximize" else None
                if turn == 0:
                    R.apply(op, f"{tag}.{op}({first!r}) then {op}({second!r})",
                            lambda: getattr(r1, op)(list(second), inplace=False), exp, keep=[("intermediate", r1)],
                            classify=cl)
                else:
                    R.apply(op, f"{tag}.{op}({first!r}) then {op}({second!r}) in place",
                            lambda: getattr(r1, op)(list(second)), exp, target=r1, classify=cl)
    # reduce by state name
    exp = o_reduce(A, red)
    R.apply("reduce", f"{tag}.reduce({red!r}, inplace=False)", lambda: F.reduce(list(red), inplace=False), exp,
            keep=[("self", F)], red=red)
    G = R.mk(A)
    R.apply("reduce", f"{tag}.reduce(tuple {red!r}, inplace=True)", lambda: G.reduce(tuple(red)), exp, target=G, red=red)
    # reduce and marginalise commute (disjoint variable sets)
    S2 = list(u["S2"])
    exp = o_eliminate(o_reduce(A, red), S2, "sum")
    for order in ("reduce-first", "marginalize-first"):
        G = R.mk(A)
        if order == "reduce-first":
            mid = R.ctx.call(lambda: G.reduce(list(red), inplace=False))
            fin = (lambda: mid.marginalize(list(S2), inplace=False))
        else:
            mid = R.ctx.call(lambda: G.marginalize(list(S2), inplace=False))
            fin = (lambda: mid.reduce(list(red), inplace=False))
        if R.ctx.failed(mid):
            R.ctx.violation(f"c04:exception:{mid.type}@{mid.where}", f"{tag} {order} raised {mid!r}")
            continue
        R.apply("reduce-marginalize", f"{tag} {order}: reduce({red!r}) / marginalize({S2!r})", fin, exp,
                keep=[("intermediate", mid)])
    # normalize
    if A.finite() and A.total() > 0 and math.isfinite(A.total()):
        exp = o_normalize(A)
        R.apply("normalize", f"{tag}.normalize(inplace=False)", lambda: F.normalize(inplace=False), exp, keep=[("self", F)])
        G = R.mk(A)
        R.apply("normalize", f"{tag}.normalize()", lambda: G.normalize(), exp, target=G)
    # copy
    R.apply("copy", f"{tag}.copy()", lambda: F.copy(), A, keep=[("self", F)])
    C = R.ctx.call(lambda: F.copy())
    if not R.ctx.failed(C) and A.states:
        v0 = list(A.states)[0]
        before = [("original", F, _fp(F))]
        r = R.ctx.call(lambda: C.marginalize([v0]))          # in-place edit of the copy's maps and values
        if R.ctx.failed(r):
            R.ctx.violation(f"c04:exception:{r.type}@{r.where}", f"{tag}.copy().marginalize raised {r!r}")
        R.unchanged(before, f"{tag}.copy() then in-place marginalize of the copy", "copy")
    # identity factor: f * 1 == f
    I = R.ctx.call(lambda: F.identity_factor())
    if R.ctx.failed(I):
        R.ctx.violation(f"c04:exception:{I.type}@{I.where}", f"{tag}.identity_factor() raised {I!r}")
    else:
        R.judge(I, o_const(A.states, 1.0), f"{tag}.identity_factor()", "identity")
        R.apply("product", f"{tag} * identity", lambda: F * I, A, keep=[("self", F), ("identity", I)])


PAD = {"__pad": ["only"]}
# a mechanism key is only granted when the failure also LOOKS like that mechanism (a well-formed result with wrong
# numbers on an empty-scope factor, e.g. because an operand was corrupted earlier, is something else)
SYMPTOMS = {"c04:divide-empty-scope": ("exception:TypeError",), "c04:maximize-empty-scope": ("exception:TypeError",),
            "c04:maximize-nothing-torch": ("malformed", "exception:IndexError")}


def _symptom_ok(key, symptom):
    return key if key and symptom in SYMPTOMS.get(key, ()) else None


def _empty_scope_classify(R, A, what, B=None):
    """An operation raised.  Is it the empty-scope mechanism (the operated factor has no variables, so its
    `values` is a numpy scalar / 0-d array)?  Structural predicate: scope of A is empty; confirmed by re-running
    the same operation with a one-state padding variable added to the operand(s), which must then succeed and
    agree with the dictionary reference."""
    if A.states:
        return None
    from rv.build import to_np
    A2 = o_mul(A, o_const(PAD))
    F2 = R.mk(A2)
    if what == "divide":
        B2 = o_mul(B, o_const(PAD))
        G2 = R.mk(B2)
        r, exp = R.ctx.call(lambda: F2.divide(G2, inplace=False)), o_divide(A2, B2)
    else:
        r, exp = R.ctx.call(lambda: F2.maximize([], inplace=False)), A2
    if R.ctx.failed(r):
        return None
    try:
        ok = R.close(oracle.factor_named(r, to_np), exp.tab) is None
    except Exception:
        ok = False
    return f"c04:{what}-empty-scope" if ok else None


def _max_classify(R, A, S):
    """maximize(S) on the factor A failed.  Two structural mechanisms are recognised:
      * A has no variables (its values are a numpy scalar)                       -> c04:maximize-empty-scope
      * torch backend, S is empty, A has variables (torch.amax(dim=()) = all)   -> c04:maximize-nothing-torch
    each confirmed by re-running with a one-state padding variable (scope no longer empty / the padding variable
    maximised instead of nothing), which must then agree with the dictionary reference."""
    if not A.states:
        return _empty_scope_classify(R, A, "maximize")
    if R.ctx.backend.startswith("torch") and not list(S):
        from rv.build import to_np
        A2 = o_mul(A, o_const(PAD))
        F2 = R.mk(A2)
        r = R.ctx.call(lambda: F2.maximize(["__pad"], inplace=False))
        if R.ctx.failed(r):
            return None
        try:
            ok = R.close(oracle.factor_named(r, to_np), A.tab) is None
        except Exception:
            ok = False
        return "c04:maximize-nothing-torch" if ok else None
    return None


def binary_battery(R, A, B, tag, with_divide):
    F, G = R.mk(A), R.mk(B)
    from pgmpy.factors import factor_divide, factor_product
    for op, ofn, meth, sym in (("product", o_mul, "product", "*"), ("sum", o_add, "sum", "+")):
        exp = ofn(A, B)
        keep = [("left", F), ("right", G)]
        R.apply(op, f"{tag}: f.{meth}(g, inplace=False)", lambda: getattr(F, meth)(G, inplace=False), exp, keep=keep)
        R.apply(op, f"{tag}: g.{meth}(f, inplace=False)", lambda: getattr(G, meth)(F, inplace=False), exp, keep=keep)
        if sym == "*":
            R.apply(op, f"{tag}: f * g", lambda: F * G, exp, keep=keep)
            R.apply(op, f"{tag}: g * f", lambda: G * F, exp, keep=keep)
            R.apply(op, f"{tag}: factor_product(f, g)", lambda: factor_product(F, G), exp, keep=keep)
        else:
            R.apply(op, f"{tag}: f + g", lambda: F + G, exp, keep=keep)
            R.apply(op, f"{tag}: g + f", lambda: G + F, exp, keep=keep)
        F2 = R.mk(A)
        R.apply(op, f"{tag}: f.{meth}(g) in place", lambda: getattr(F2, meth)(G), exp, keep=[("right", G)], target=F2)
        G2 = R.mk(B)
        R.apply(op, f"{tag}: g.{meth}(f) in place", lambda: getattr(G2, meth)(F), exp, keep=[("right", F)], target=G2)
        # commutativity through pgmpy's own equality (axis orders of the two results generally differ)
        r1, r2 = R.ctx.call(lambda: getattr(F, meth)(G, inplace=False)), R.ctx.call(lambda: getattr(G, meth)(F, inplace=False))
        if not R.ctx.failed(r1) and not R.ctx.failed(r2):
            R.eq(r1, r2, exp, exp, f"{tag}: f.{meth}(g) == g.{meth}(f)")
        # an operand with itself
        R.apply(op, f"{tag}: f.{meth}(f, inplace=False)", lambda: getattr(F, meth)(F, inplace=False), ofn(A, A),
                keep=[("self", F)])
        F3 = R.mk(A)
        R.apply(op, f"{tag}: f.{meth}(f) in place", lambda: getattr(F3, meth)(F3), ofn(A, A), target=F3)
    if with_divide:
        exp = o_divide(A, B)
        R.ctx.note("divide-cells-x/0", sum(1 for x in exp.tab.values() if math.isinf(x)))
        R.ctx.note("divide-cells-0/0", sum(1 for k, x in exp.tab.items() if x == 0 and
                                          B.tab[frozenset(p for p in k if p[0] in B.states)] == 0))
        keep = [("dividend", F), ("divisor", G)]
        variants = [("f.divide(g, inplace=False)", lambda: F.divide(G, inplace=False), None),
                    ("f / g", lambda: F / G, None),
                    ("factor_divide(f, g)", lambda: factor_divide(F, G), None)]
        F4 = R.mk(A)
        variants.append(("f.divide(g) in place", lambda: F4.divide(G), F4))
        for name, fn, target in variants:
            R.apply("divide", f"{tag}: {name}", fn, exp, keep=keep if target is None else [("divisor", G)],
                    target=target, classify=lambda: _empty_scope_classify(R, A, "divide", B))
        if A.states:
            # f / f : 1 where f != 0, 0 where f == 0 (an empty-scope dividend is what the variants above cover)
            R.apply("divide", f"{tag}: f / f", lambda: F / F, o_divide(A, A), keep=[("self", F)])
        # scalar divisor: documented as unsupported (divisor must be a DiscreteFactor) -> only recorded
        r = R.ctx.call(lambda: F / 2.0)
        R.ctx.note("divide-by-python-scalar-raised" if R.ctx.failed(r) else "divide-by-python-scalar-returned")


def scalar_battery(R, A, cs, tag):
    F = R.mk(A)
    for c in cs:
        em, ea = o_scalar(A, c, lambda x, y: x * y), o_scalar(A, c, lambda x, y: x + y)
        keep = [("self", F)]
        R.apply("product", f"{tag} * {c!r}", lambda: F * c, em, keep=keep)
        R.apply("product", f"{c!r} * {tag}", lambda: c * F, em, keep=keep)
        R.apply("sum", f"{tag} + {c!r}", lambda: F + c, ea, keep=keep)
        R.apply("sum", f"{c!r} + {tag}", lambda: c + F, ea, keep=keep)
        R.apply("product", f"{tag}.product({c!r}, inplace=False)", lambda: F.product(c, inplace=False), em, keep=keep)
        G = R.mk(A)
        R.apply("product", f"{tag}.product({c!r}) in place", lambda: G.product(c), em, target=G)
        G2 = R.mk(A)
        R.apply("sum", f"{tag}.sum({c!r}) in place", lambda: G2.sum(c), ea, target=G2)


def nary_battery(R, As, nary):
    from pgmpy.factors import factor_product, factor_sum_product
    ks = nary["ks"]
    Fs = [R.mk(As[k]) for k in ks]
    keep = [(f"arg{i}", f) for i, f in enumerate(Fs)]
    prod = As[ks[0]]
    for k in ks[1:]:
        prod = o_mul(prod, As[k])
    R.apply("product", f"factor_product(*f{ks})", lambda: factor_product(*Fs), prod, keep=keep)
    out = list(nary["out"])
    exp = o_eliminate(prod, [v for v in prod.states if v not in out], "sum")
    r = R.apply("sum-product", f"factor_sum_product({out!r}, f{ks})", lambda: factor_sum_product(list(out), list(Fs)),
                exp, keep=keep, alias=False)
    if r is not None and list(r.variables) != out:
        R.ctx.note("sum-product-output-axis-order-differs-from-request")     # axis order is not part of the statement
    # all four factors, every variable of the union that was asked for
    allF = [R.mk(A) for A in As]
    full = As[0]
    for A in As[1:]:
        full = o_mul(full, A)
    out2 = list(nary["out2"])
    R.apply("sum-product", f"factor_sum_product({out2!r}, all four)", lambda: factor_sum_product(list(out2), allF),
            o_eliminate(full, [v for v in full.states if v not in out2], "sum"),
            keep=[(f"arg{i}", f) for i, f in enumerate(allF)])
    # associativity
    i, j, k = nary["assoc"]
    X, Y, Z = R.mk(As[i]), R.mk(As[j]), R.mk(As[k])
    exp = o_mul(o_mul(As[i], As[j]), As[k])
    keep = [("x", X), ("y", Y), ("z", Z)]
    R.apply("product", f"(f{i} * f{j}) * f{k}", lambda: (X * Y) * Z, exp, keep=keep)
    R.apply("product", f"f{i} * (f{j} * f{k})", lambda: X * (Y * Z), exp, keep=keep)
    exps = o_add(o_add(As[i], As[j]), As[k])
    R.apply("sum", f"(f{i} + f{j}) + f{k}", lambda: (X + Y) + Z, exps, keep=keep)
    R.apply("sum", f"f{i} + (f{j} + f{k})", lambda: X + (Y + Z), exps, keep=keep)
    # distributivity as a cross-check of sum against product: x * (y + z) == x*y + x*z
    R.apply("sum", f"f{i}*f{j} + f{i}*f{k}", lambda: X * Y + X * Z, o_mul(As[i], o_add(As[j], As[k])), keep=keep)


def eq_battery(R, A, e, tag):
    vs = list(A.states)
    F = R.mk(A)
    pst = {v: [A.states[v][p] for p in perm] for v, perm in (tuple(x) for x in e["sperm"])}
    # equal by construction: other axis order, other state order
    R.eq(F, R.mk(A, e["axis"], pst), A, A, f"{tag} == permuted({e['axis']!r}, states permuted)")
    R.eq(R.mk(A, e["axis"], pst), F, A, A, f"permuted == {tag}")
    R.eq(F, R.mk(A, e["axis"]), A, A, f"{tag} == axes-permuted")
    R.eq(F, R.mk(A, vs, pst), A, A, f"{tag} == states-permuted")
    R.eq(F, F, A, A, f"{tag} == {tag}")
    keys = sorted(A.tab, key=repr)
    kc = keys[e["cell"] % len(keys)]
    for name, d in (("one cell off", e["delta"]), ("one cell within tolerance", e["tiny"])):
        B = OF(dict(A.states), dict(A.tab))
        B.tab[kc] = B.tab[kc] + d
        R.eq(F, R.mk(B, e["axis"], pst), A, B, f"{tag} == permuted with {name} ({d:+g})")
        R.eq(R.mk(B, e["axis"], pst), F, B, A, f"permuted with {name} ({d:+g}) == {tag}")
    B = OF(dict(A.states), dict(A.tab))
    B.tab[kc] = B.tab[kc] * 1.03 + 1e-3                 # outside atol + rtol*|x| whatever the magnitude of x
    R.eq(F, R.mk(B, e["axis"], pst), A, B, f"{tag} == permuted with one cell off by 3% + 1e-3")
    R.eq(R.mk(B, e["axis"], pst), F, B, A, f"permuted with one cell off by 3% + 1e-3 == {tag}")
    if vs:
        v = vs[e["rvar"]]
        # a renamed state
        names = list(A.states[v])
        i = int(e["rstate"] * len(names)) % len(names)
        new = ("renamed", repr(names[i]))
        st2 = dict(A.states)
        st2[v] = names[:i] + [new] + names[i + 1:]
        B = OF(st2, {frozenset(((p[0], new) if p == (v, names[i]) else p) for p in k): x for k, x in A.tab.items()})
        R.eq(F, R.mk(B, e["axis"]), A, B, f"{tag} == copy with state {names[i]!r} of {v!r} renamed")
        # a different scope: one variable renamed
        nv = ("other", repr(v))
        B = OF({(nv if u == v else u): s for u, s in A.states.items()},
               {frozenset(((nv, p[1]) if p[0] == v else p) for p in k): x for k, x in A.tab.items()})
        R.eq(F, R.mk(B), A, B, f"{tag} == copy with variable {v!r} renamed")
    # a different scope: an additional one-state variable (same number of cells)
    B = o_mul(A, o_const({"__extra": ["s"]}))
    R.eq(F, R.mk(B), A, B, f"{tag} == copy with an extra one-state variable")
    R.eq(R.mk(B), F, B, A, f"copy with an extra one-state variable == {tag}")
    # not a factor at all
    r = R.ctx.call(lambda: F == 3.0)
    R.ctx.expect((not R.ctx.failed(r)) and r is False, "c04:wrong-eq-false-positive", f"{tag} == 3.0 gave {r!r}")


def chain_battery(R, As, chain):
    ctx = R.ctx
    Fs = [R.mk(A) for A in As]
    cur, ocur = R.mk(As[0]), As[0]
    for n, st in enumerate(chain):
        if not ocur.finite():
            break
        op, inplace = st["op"], st["inplace"]
        label = f"history step {n}: {op}"
        keep = []
        classify = None
        if op in ("product", "sum"):
            j = st["j"]
            oexp = (o_mul if op == "product" else o_add)(ocur, As[j])
            G = Fs[j]
            keep = [("right", G)]
            if inplace:
                fn = (lambda: getattr(cur, op)(G))
            elif st["style"] == "operator":
                fn = (lambda: cur * G) if op == "product" else (lambda: cur + G)
            else:
                fn = (lambda: getattr(cur, op)(G, inplace=False))
            kind = op
        elif op == "divide":
            B = o_from_values(st["g"]["vars"], R.states, st["g"]["values"])
            oexp = o_divide(ocur, B)
            G = R.mk(B, st["g"]["vars"])
            keep = [("divisor", G)]
            classify = (lambda ocur=ocur, B=B: _empty_scope_classify(R, ocur, "divide", B))
            if inplace:
                fn = (lambda: cur.divide(G))
            elif st["style"] == "operator":
                fn = (lambda: cur / G)
            else:
                fn = (lambda: cur.divide(G, inplace=False))
            kind = "divide"
        elif op == "scalar":
            c = st["c"]
            if st["kind"] == "mul":
                oexp, kind = o_scalar(ocur, c, lambda x, y: x * y), "product"
                fn = (lambda: cur.product(c)) if inplace else ((lambda: c * cur) if st["style"] == "operator"
                                                                else (lambda: cur.product(c, inplace=False)))
            else:
                oexp, kind = o_scalar(ocur, c, lambda x, y: x + y), "sum"
                fn = (lambda: cur.sum(c)) if inplace else ((lambda: cur + c) if st["style"] == "operator"
                                                            else (lambda: cur.sum(c, inplace=False)))
        elif op in ("marg", "max"):
            S = list(st["S"])
            oexp = o_eliminate(ocur, S, "sum" if op == "marg" else "max")
            meth = "marginalize" if op == "marg" else "maximize"
            kind = meth
            fn = (lambda: getattr(cur, meth)(S)) if inplace else (lambda: getattr(cur, meth)(S, inplace=False))
        elif op == "reduce":
            red = _named(R.states, [tuple(p) for p in st["R"]])
            oexp, kind = o_reduce(ocur, red), "reduce"
            fn = (lambda: cur.reduce(red)) if inplace else (lambda: cur.reduce(red, inplace=False))
        else:
            if not (ocur.total() > 0 and math.isfinite(ocur.total())):
                continue
            oexp, kind = o_normalize(ocur), "normalize"
            fn = (lambda: cur.normalize()) if inplace else (lambda: cur.normalize(inplace=False))
        if inplace:
            res = R.apply(kind, label + " (in place)", fn, oexp, keep=keep, target=cur, classify=classify, step=st)
        else:
            res = R.apply(kind, label, fn, oexp, keep=keep + [("self", cur)], alias=False, classify=classify, step=st)
        if res is None:
            break                               # already reported; the rest of the history is meaningless
        cur, ocur = res, oexp
    # the operands of the whole history are still what they were
    for j, (F, A) in enumerate(zip(Fs, As)):
        R.judge(F, A, f"operand f{j} after the history", "operand-after-history")


def _step_call(R, cur, ocur, st, Fs, As):
    """(callable, oracle result, op key, operands that must stay unchanged) for one step on `cur`, or None to skip."""
    op, inplace, style = st["op"], st["inplace"], st["style"]
    if op in ("product", "sum"):
        G = Fs[st["j"]]
        oexp = (o_mul if op == "product" else o_add)(ocur, As[st["j"]])
        if inplace:
            fn = (lambda: getattr(cur, op)(G))
        elif style == "operator":
            fn = (lambda: cur * G) if op == "product" else (lambda: cur + G)
        else:
            fn = (lambda: getattr(cur, op)(G, inplace=False))
        return fn, oexp, op, [("right", G)]
    if op == "divide":
        B = o_from_values([v for v in st["g"]["vars"] if v in ocur.states] if set(st["g"]["vars"]) <= set(ocur.states)
                          else [], R.states, st["g"]["values"] if set(st["g"]["vars"]) <= set(ocur.states) else [1.0])
        G = R.mk(B, list(B.states))
        fn = (lambda: cur.divide(G)) if inplace else ((lambda: cur / G) if style == "operator"
                                                       else (lambda: cur.divide(G, inplace=False)))
        return fn, o_divide(ocur, B), "divide", [("divisor", G)], (lambda: _empty_scope_classify(R, ocur, "divide", B))
    if op == "scalar":
        c = st["c"]
        if st["kind"] == "mul":
            fn = (lambda: cur.product(c)) if inplace else ((lambda: c * cur) if style == "operator"
                                                            else (lambda: cur.product(c, inplace=False)))
            return fn, o_scalar(ocur, c, lambda x, y: x * y), "product", []
        fn = (lambda: cur.sum(c)) if inplace else ((lambda: cur + c) if style == "operator"
                                                    else (lambda: cur.sum(c, inplace=False)))
        return fn, o_scalar(ocur, c, lambda x, y: x + y), "sum", []
    if op in ("marg", "max"):
        S = [v for v in st["S"] if v in ocur.states]
        meth = "marginalize" if op == "marg" else "maximize"
        fn = (lambda: getattr(cur, meth)(S)) if inplace else (lambda: getattr(cur, meth)(S, inplace=False))
        return (fn, o_eliminate(ocur, S, "sum" if op == "marg" else "max"), meth, [],
                (lambda: _max_classify(R, ocur, S)) if op == "max" else None)
    if op == "reduce":
        red = _named(R.states, [tuple(p) for p in st["R"] if p[0] in ocur.states])
        fn = (lambda: cur.reduce(red)) if inplace else (lambda: cur.reduce(red, inplace=False))
        return fn, o_reduce(ocur, red), "reduce", []
    if not (ocur.total() > 0 and math.isfinite(ocur.total())):
        return None
    fn = (lambda: cur.normalize()) if inplace else (lambda: cur.normalize(inplace=False))
    return fn, o_normalize(ocur), "normalize", []


def observe(R, X, oX, what, label):
    """Read-only members between the algebra calls.  Only scope / cardinalities (which the statement names) and ==
    are judged; the others are run for their side effects: none of them may change the factor."""
    from rv.build import to_np
    ctx = R.ctx
    before = [("self", X, _fp(X))]
    vs = list(oX.states)
    if what == "scope":
        r = ctx.call(lambda: list(X.scope()))
        if ctx.failed(r):
            ctx.violation(f"c04:exception:{r.type}@{r.where}", f"{label}: scope() raised {r!r}")
        else:
            ctx.expect(len(r) == len(vs) and set(r) == set(vs), "c04:wrong-scope:observer",
                       f"{label}: scope() = {r!r}, expected the variables {vs!r}")
    elif what == "get_cardinality":
        r = ctx.call(lambda: X.get_cardinality(list(vs)))
        if ctx.failed(r):
            ctx.violation(f"c04:exception:{r.type}@{r.where}", f"{label}: get_cardinality raised {r!r}")
        else:
            try:
                got = {k: int(c) for k, c in r.items()}
            except Exception:
                got = None
            ctx.expect(got == {v: len(oX.states[v]) for v in vs}, "c04:cardinality:observer",
                       f"{label}: get_cardinality = {r!r}, expected {[(v, len(oX.states[v])) for v in vs]!r}")
    elif what == "assignment":
        n = len(oX.tab)
        idxs = sorted({0, n // 2, n - 1})
        r = ctx.call(lambda: X.assignment(list(idxs)))
        if ctx.failed(r):
            ctx.note(f"observer-raised:assignment:{r.type}")
        else:
            try:
                flat = np.asarray(to_np(X.values)).ravel()
                bad = [i for i, asg in zip(idxs, r)
                       if _close_rel({0: float(flat[i])}, {0: oX.tab[frozenset((v, s) for v, s in asg)]}, 1e-6)]
                ctx.note("observer-mismatch:assignment" if bad else "observer-ok:assignment")
            except Exception:
                ctx.note("observer-mismatch:assignment")
    elif what == "get_value":
        if vs and all(isinstance(v, str) for v in vs):
            key = sorted(oX.tab, key=repr)[len(oX.tab) // 2]
            r = ctx.call(lambda: X.get_value(**dict(key)))
            if ctx.failed(r):
                ctx.note(f"observer-raised:get_value:{r.type}")
            else:
                try:
                    ok = _close_rel({0: float(r)}, {0: oX.tab[key]}, 1e-6) is None
                except Exception:
                    ok = False
                ctx.note("observer-ok:get_value" if ok else "observer-mismatch:get_value")
    elif what == "str":
        for f in (str, repr):
            r = ctx.call(lambda: f(X))
            if ctx.failed(r):
                ctx.note(f"observer-raised:{f.__name__}:{r.type}")
    elif what == "hash":
        r = ctx.call(lambda: hash(X))
        if ctx.failed(r):
            ctx.note(f"observer-raised:hash:{r.type}")
    else:                                   # == against a freshly built equal factor in another axis order
        order = list(reversed(vs))
        vals = [abs(v) for v in oX.tab.values() if v == v and v != 0]
        if ctx.backend.startswith("torch") and vals and (max(vals) > 1e30 or min(vals) < 1e-30):
            # under torch every constructor input passes through float32 (see DESIGN 8.2): a fresh copy of a table
            # that has grown beyond float32's range cannot be built faithfully, so the comparison is not decidable
            ctx.note("observer-eq-skipped:torch-float32-range")
        else:
            R.eq(X, R.mk(oX, order), oX, oX, f"{label}: == fresh copy with axes {order!r}")
    R.drain_invariant(label)
    for name, obj, fb in before:
        fa = _fp(obj)
        if fa != fb:
            ctx.violation(f"c04:observer-modified:{what}", f"{label}: {what} changed the factor: {_fp_diff(fb, fa)}")
        else:
            ctx.ok()


def reuse_battery(R, As, steps):
    """One object through a long sequence (see _gen_reuse).  Every answer is judged against the reference for THAT
    call; results of earlier out-of-place calls are re-read after every later in-place call on their source."""
    Fs = [R.mk(A) for A in As]
    X, oX = R.mk(As[0]), As[0]
    kept = []
    for n, st in enumerate(steps):
        if not oX.finite():
            break
        label = f"one-object sequence step {n}"
        if st["mode"] == "observe":
            R.ctx.feature("observer:" + st["what"])
            observe(R, X, oX, st["what"], f"{label}: observer {st['what']}")
            continue
        built = _step_call(R, X, oX, st, Fs, As)
        if built is None:
            continue
        fn, oexp, kind, keep = built[:4]
        classify = built[4] if len(built) > 4 else None
        label += f": {st['op']}"
        if st["inplace"]:
            if R.apply(kind, label + " (in place)", fn, oexp, keep=keep, target=X, classify=classify, step=st) is None:
                break
            oX = oexp
            for (r, o, l) in kept:
                R.judge(r, o, f"result of [{l}] re-read after [{label}] on its source", "result-after-later-inplace-call")
        else:
            res = R.apply(kind, label + " (out of place)", fn, oexp, keep=keep + [("self", X)], alias=False,
                          classify=classify, step=st)
            if res is not None and oexp.finite():
                kept.append((res, oexp, label))
    R.judge(X, oX, "the object at the end of its sequence", "object-after-sequence")
    for (r, o, l) in kept:
        R.judge(r, o, f"result of [{l}] re-read at the end of the sequence", "result-after-later-inplace-call")
    for j, (F, A) in enumerate(zip(Fs, As)):
        R.judge(F, A, f"partner f{j} after the one-object sequence", "operand-after-history")


def fdict_battery(R, As):
    """FactorDict: thin wrappers (const * fd, fd + const, fd + fd, fd - fd, dot, product)."""
    ctx = R.ctx
    try:
        from pgmpy.factors.FactorDict import FactorDict
    except Exception as e:                                  # optional dependency (sklearn) missing
        ctx.note("factordict-unavailable")
        return
    cl = [("c%d" % i,) for i in range(len(As))]
    F1 = [R.mk(A) for A in As]
    F2 = [R.mk(o_scalar(A, 0.5, lambda x, y: x * y + y)) for A in As]
    O2 = [o_scalar(A, 0.5, lambda x, y: x * y + y) for A in As]
    d1, d2 = FactorDict(dict(zip(cl, F1))), FactorDict(dict(zip(cl, F2)))
    for name, fn, exps in (("2.5 * fd", lambda: 2.5 * d1, [o_scalar(A, 2.5, lambda x, y: x * y) for A in As]),
                           ("fd + 1.5", lambda: d1 + 1.5, [o_scalar(A, 1.5, lambda x, y: x + y) for A in As]),
                           ("fd + fd2", lambda: d1 + d2, [o_add(A, B) for A, B in zip(As, O2)]),
                           ("fd - fd2", lambda: d1 - d2, [o_binary(A, B, lambda x, y: x - y) for A, B in zip(As, O2)])):
        r = ctx.call(fn)
        if ctx.failed(r):
            ctx.violation(f"c04:exception:{r.type}@{r.where}", f"FactorDict {name} raised {r!r}")
            continue
        for c, exp in zip(cl, exps):
            try:
                got = r[c]
            except Exception as e:
                ctx.violation("c04:malformed-result:factordict", f"FactorDict {name}: no entry {c}")
                continue
            R.judge(got, exp, f"FactorDict {name} [{c}]", "factordict")
    want = math.fsum(math.fsum(o_mul(A, B).tab.values()) for A, B in zip(As, O2))
    r = ctx.call(lambda: d1.dot(d2))
    if ctx.failed(r):
        ctx.violation(f"c04:exception:{r.type}@{r.where}", f"FactorDict.dot raised {r!r}")
    else:
        ctx.expect(abs(float(r) - want) <= 1e-9 + 1e-9 * abs(want), "c04:wrong-factordict-dot",
                   f"FactorDict.dot = {float(r)!r}, expected {want!r}")
    for j, (F, A) in enumerate(zip(F1, As)):
        R.judge(F, A, f"FactorDict member f{j} afterwards", "operand-after-factordict")


# ------------------------------------------------------------------------------ run_case
def repo_tests_case(ctx):
    """Thorough tier: run pgmpy's own DiscreteFactor / TabularCPD / JPD unit tests with the class-invariant
    monitor switched on.  Test outcomes are only recorded; an invariant broken by an operation that was handed
    well-formed factors is a violation."""
    import io
    import unittest
    if ctx.backend != "numpy" or _MON is None:
        ctx.note("repo-tests-skipped")
        return
    _MON.drain()
    e0 = _MON.evals
    try:
        suite = unittest.defaultTestLoader.loadTestsFromName("pgmpy.tests.test_factors.test_discrete.test_Factor")
        res = unittest.TextTestRunner(stream=io.StringIO(), verbosity=0).run(suite)
        ctx.note("repo-tests-run", res.testsRun)
        ctx.note("repo-tests-failed", len(res.failures) + len(res.errors))
    except Exception as e:
        ctx.note(f"repo-tests-not-runnable:{type(e).__name__}")
    for v in _MON.drain():
        ctx.violation(f"c04:invariant-in-repo-tests:{v['cls']}.{v['method']}",
                      f"while running test_Factor.py: class invariant broken on exit of {v['cls']}.{v['method']} "
                      f"({v['on']}): {v['what']}")
    ctx.ok(_MON.evals - e0)
    ctx.feature("repo-tests-under-invariant")


def run_case(spec, ctx):
    if spec.get("kind") == "repo-tests":
        return repo_tests_case(ctx)
    states = {v: list(s) for v, s in spec["pool"]}
    if ctx.backend.startswith("torch"):
        # DiscreteFactor.__init__ builds torch.Tensor(values) (float32) before casting to the configured dtype, so
        # under torch the inputs are restricted to float32-representable numbers; the algebra itself is float64.
        def q1(x):
            if x and not (1e-30 <= abs(x) <= 1e30):            # keep inside float32's exponent range
                x = math.copysign(10.0 ** max(-30, min(30, math.log10(abs(x)))), x)
            return float(np.float32(x))

        def q(f):
            return dict(f, values=[q1(x) for x in f["values"]])
        spec = dict(spec, factors=[q(f) for f in spec["factors"]],
                    chain=[dict(st, g=q(st["g"])) if "g" in st else st for st in spec["chain"]],
                    reuse=[dict(st, g=q(st["g"])) if "g" in st else st for st in spec["reuse"]])
        ctx.feature("torch-inputs-float32-representable")
    As = [o_from_values(f["vars"], states, f["values"]) for f in spec["factors"]]
    R = Runner(ctx, states, spec.get("profile", "normal"), spec.get("implicit_names", False))
    ctx.nontrivial = max(len(A.states) for A in As) >= 2 and max(len(s) for s in states.values()) >= 2
    for ft in (f"rel:{spec['rel']}", f"vars:{spec['vkind']}", f"states:{spec['skind']}", f"values:{R.profile}",
               "implicit-state-names" if R.implicit else None,
               "card>=10" if any(len(s) >= 10 for s in states.values()) else None,
               "empty-scope" if any(not A.states for A in As) else None,
               "card1" if any(len(s) == 1 for A in As for s in A.states.values()) else None,
               "zeros" if any(x == 0 for A in As for x in A.tab.values()) else None):
        if ft:
            ctx.feature(ft)

    unary_battery(R, As[0], spec["unary"][0], "f0")
    unary_battery(R, As[1], spec["unary"][1], "f1")
    binary_battery(R, As[0], As[1], "f0,f1", with_divide=False)
    binary_battery(R, As[0], As[2], "f0,f2", with_divide=True)
    scalar_battery(R, As[3], spec["scalars"], "f3")
    nary_battery(R, As, spec["nary"])
    eq_battery(R, As[0], spec["eq"][0], "f0")
    eq_battery(R, As[3], spec["eq"][1], "f3")
    chain_battery(R, As, spec["chain"])
    reuse_battery(R, As, spec["reuse"])
    if ctx.backend == "numpy" and not R.relative:            # FactorDict.__sub__ cancels: absolute-tolerance cases only
        fdict_battery(R, As)

    R.drain_invariant()
    ctx.note("operation-instances", R.ops)
    ctx.xcell[f"totals-{ctx.backend}"] = R.totals      # numpy and torch cells see differently rounded inputs
