"""C16 - purity, repeatability, representation independence.

Workloads (each its own set of worker cells):
  H        history independence: one shared engine per model answers a random sequence of
           questions; every answer is compared with a fresh engine on a fresh build.
  R        representation independence: the same spec re-expressed under a random bijective
           renaming of variables / states, shuffled insertion and parent order.
  P:<Cxx>  purity monitor P riding on property Cxx's own workload: every public entry point
           is wrapped; deep fingerprints of self.model / data / arguments before vs after.
Cross-process: numeric answers are registered in ctx.xcell and compared by the parent
between hash-seed cells and the numpy / torch cells.
"""
import importlib
import os

import numpy as np

from rv import gen, oracle

_RIDERS = ["C01", "C02", "C03", "C04", "C05", "C06", "C09", "C10", "C11", "C12", "C13", "C14", "C19", "C07", "C17"]
_RIDE_CASES = {"quick": {"C04": 40, "C05": 60, "C01": 60, "C02": 30, "C03": 30, "C06": 30, "C09": 25, "C10": 40, "C11": 16,
                         "C12": 12, "C13": 30, "C14": 30, "C19": 40, "C07": 20, "C17": 6},
               "thorough": {"C04": 300, "C05": 600, "C01": 600, "C02": 300, "C03": 300, "C06": 200, "C09": 200, "C10": 300, "C11": 100,
                            "C12": 60, "C13": 200, "C14": 200, "C19": 300, "C07": 120, "C17": 30}}


def _riders():
    here = os.path.dirname(os.path.abspath(__file__))
    return [r for r in _RIDERS if os.path.exists(os.path.join(here, r + ".py"))]


def _workloads(tier):
    base = {"quick": [("H", 90), ("R", 120), ("RD", 90)], "thorough": [("H", 1500), ("R", 2000), ("RD", 1200)]}[tier]
    return base + [(f"P:{r}", _RIDE_CASES[tier][r]) for r in _riders()]


PLAN = {
    "quick": {"cases": 0, "workloads": _workloads("quick"), "hashseeds": 3, "shards": 1, "timeout": 600,
              "min_nontrivial": 60},
    "thorough": {"cases": 0, "workloads": _workloads("thorough"), "hashseeds": 8, "shards": 1, "timeout": 3400,
                 "min_nontrivial": 600, "backends": ["numpy", "torch"], "torch_hashseeds": 1, "torch_shards": 1,
                 "torch_cases": 200},
}
RULE = ("H: random BN (string names) + random sequence of 5-25 questions (VE/BP/CausalInference/sampler; plain, "
        "hard evidence, virtual evidence, MAP, repeats, different elimination orders) on shared engines vs fresh "
        "engine on fresh build. R: random BN re-expressed under bijective variable renaming (str/int/tuple names), "
        "state renaming + reordering (tables permuted), shuffled node/edge/CPD insertion and parent order. "
        "P:<Cxx>: the purity monitor wrapped around every public entry point while Cxx's generated workload runs. "
        "non-trivial: H history with >= 3 successful questions of >= 2 kinds; R spec with >= 2 nodes and >= 1 edge; "
        "P case in which >= 1 monitored entry point was evaluated. distinct by (workload, spec digest)")
ASSUMPTIONS = ["a re-ordered CPD/factor *list* is reported, not counted as a content change",
               "only successful questions are part of a history",
               "fingerprints cover nodes, edges, latents, CPD/factor variables, cardinalities, state names, value bytes, "
               "DataFrame values/dtypes/index"]
REACH = [
    "pgmpy.inference.base:Inference._virtual_evidence",
    "pgmpy.inference.base:Inference._prune_bayesian_model",
    "pgmpy.inference.ExactInference:BeliefPropagation.query",
    "pgmpy.inference.ExactInference:VariableElimination.query",
    "pgmpy.factors.discrete.DiscreteFactor:DiscreteFactor.product",
]
REACH_REQUIRED = REACH
MONITORS_REQUIRED = ["purity_evaluations"]
MANIFEST = {
    "text": "Purity: deep content fingerprints of the model / CPDs / factors / data handed to ~95 public entry points "
            "(inference, scoring, estimation, search, export, conversion, factor and CPD methods with inplace=False) "
            "are compared before and after every call while the generated workloads of 15 other properties run. "
            "History: every answer of shared VariableElimination / BeliefPropagation / CausalInference / sampling engines "
            "over random question sequences equals a fresh engine's. Representation: answers, fits and scores are "
            "unchanged under renaming, relabelling, re-ordering, and across hash-seed / torch cells. Exploration only.",
    "technique": "runtime monitoring: purity fingerprints around every entry point, shared-vs-fresh engine history "
                 "checker, renaming metamorphic monitor, cross-process (hash seed / backend) answer comparison",
}

PURITY_TARGETS = [
    "pgmpy.inference.ExactInference:VariableElimination.query",
    "pgmpy.inference.ExactInference:VariableElimination.map_query",
    "pgmpy.inference.ExactInference:VariableElimination.max_marginal",
    "pgmpy.inference.ExactInference:VariableElimination.induced_graph",
    "pgmpy.inference.ExactInference:BeliefPropagation.query",
    "pgmpy.inference.ExactInference:BeliefPropagation.map_query",
    "pgmpy.inference.ExactInference:BeliefPropagation.calibrate",
    "pgmpy.inference.ExactInference:BeliefPropagation.max_calibrate",
    "pgmpy.inference.CausalInference:CausalInference.query",
    "pgmpy.inference.CausalInference:CausalInference.get_all_backdoor_adjustment_sets",
    "pgmpy.inference.CausalInference:CausalInference.get_all_frontdoor_adjustment_sets",
    "pgmpy.inference.CausalInference:CausalInference.get_minimal_adjustment_set",
    "pgmpy.inference.CausalInference:CausalInference.is_valid_backdoor_adjustment_set",
    "pgmpy.inference.CausalInference:CausalInference.is_valid_frontdoor_adjustment_set",
    "pgmpy.inference.CausalInference:CausalInference.is_valid_adjustment_set",
    "pgmpy.inference.dbn_inference:DBNInference.query",
    "pgmpy.inference.dbn_inference:DBNInference.forward_inference",
    "pgmpy.inference.dbn_inference:DBNInference.backward_inference",
    "pgmpy.sampling.Sampling:BayesianModelSampling.forward_sample",
    "pgmpy.sampling.Sampling:BayesianModelSampling.rejection_sample",
    "pgmpy.sampling.Sampling:BayesianModelSampling.likelihood_weighted_sample",
    "pgmpy.models.BayesianNetwork:BayesianNetwork.predict",
    "pgmpy.models.BayesianNetwork:BayesianNetwork.predict_probability",
    "pgmpy.models.BayesianNetwork:BayesianNetwork.get_state_probability",
    "pgmpy.models.BayesianNetwork:BayesianNetwork.to_markov_model",
    "pgmpy.models.BayesianNetwork:BayesianNetwork.to_junction_tree",
    "pgmpy.models.BayesianNetwork:BayesianNetwork.simulate",
    "pgmpy.models.BayesianNetwork:BayesianNetwork.check_model",
    "pgmpy.models.BayesianNetwork:BayesianNetwork.copy",
    "pgmpy.models.BayesianNetwork:BayesianNetwork.is_imap",
    "pgmpy.models.MarkovNetwork:MarkovNetwork.to_factor_graph",
    "pgmpy.models.MarkovNetwork:MarkovNetwork.to_junction_tree",
    "pgmpy.models.MarkovNetwork:MarkovNetwork.get_partition_function",
    "pgmpy.models.MarkovNetwork:MarkovNetwork.to_bayesian_model",
    "pgmpy.models.FactorGraph:FactorGraph.to_markov_model",
    "pgmpy.models.FactorGraph:FactorGraph.to_junction_tree",
    "pgmpy.models.FactorGraph:FactorGraph.get_partition_function",
    "pgmpy.estimators.StructureScore:StructureScore.score",
    "pgmpy.estimators.StructureScore:K2Score.local_score",
    "pgmpy.estimators.StructureScore:BDeuScore.local_score",
    "pgmpy.estimators.StructureScore:BDsScore.local_score",
    "pgmpy.estimators.StructureScore:BicScore.local_score",
    "pgmpy.estimators.StructureScore:AICScore.local_score",
    "pgmpy.estimators.MLE:MaximumLikelihoodEstimator.get_parameters",
    "pgmpy.estimators.MLE:MaximumLikelihoodEstimator.estimate_cpd",
    "pgmpy.estimators.BayesianEstimator:BayesianEstimator.get_parameters",
    "pgmpy.estimators.BayesianEstimator:BayesianEstimator.estimate_cpd",
    "pgmpy.estimators.EM:ExpectationMaximization.get_parameters",
    "pgmpy.estimators.HillClimbSearch:HillClimbSearch.estimate",
    "pgmpy.estimators.ExhaustiveSearch:ExhaustiveSearch.estimate",
    "pgmpy.estimators.ExhaustiveSearch:ExhaustiveSearch.all_scores",
    "pgmpy.estimators.TreeSearch:TreeSearch.estimate",
    "pgmpy.estimators.PC:PC.estimate",
    "pgmpy.estimators.PC:PC.build_skeleton",
    "pgmpy.estimators.PC:PC.skeleton_to_pdag",
    "pgmpy.base.DAG:PDAG.to_dag",
    "pgmpy.base.DAG:DAG.get_independencies",
    "pgmpy.base.DAG:DAG.is_iequivalent",
    "pgmpy.base.DAG:DAG.moralize",
    "pgmpy.base.DAG:DAG.minimal_dseparator",
    "pgmpy.readwrite.BIF:BIFWriter.__init__",
    "pgmpy.readwrite.BIF:BIFWriter.__str__",
    "pgmpy.readwrite.XMLBIF:XMLBIFWriter.__init__",
    "pgmpy.readwrite.XMLBIF:XMLBIFWriter.__str__",
    "pgmpy.readwrite.UAI:UAIWriter.__init__",
    "pgmpy.readwrite.UAI:UAIWriter.__str__",
    "pgmpy.readwrite.NET:NETWriter.__init__",
    "pgmpy.readwrite.NET:NETWriter.__str__",
    "pgmpy.models.BayesianNetwork:BayesianNetwork.save",
    "pgmpy.estimators.CITests:chi_square",
    "pgmpy.estimators.CITests:g_sq",
    "pgmpy.estimators.CITests:log_likelihood",
    "pgmpy.estimators.CITests:modified_log_likelihood",
    "pgmpy.estimators.CITests:power_divergence",
    "pgmpy.estimators.CITests:pearsonr",
    "pgmpy.factors.discrete.DiscreteFactor:DiscreteFactor.product",
    "pgmpy.factors.discrete.DiscreteFactor:DiscreteFactor.sum",
    "pgmpy.factors.discrete.DiscreteFactor:DiscreteFactor.divide",
    "pgmpy.factors.discrete.DiscreteFactor:DiscreteFactor.marginalize",
    "pgmpy.factors.discrete.DiscreteFactor:DiscreteFactor.maximize",
    "pgmpy.factors.discrete.DiscreteFactor:DiscreteFactor.reduce",
    "pgmpy.factors.discrete.DiscreteFactor:DiscreteFactor.normalize",
    "pgmpy.factors.discrete.DiscreteFactor:DiscreteFactor.copy",
    "pgmpy.factors.discrete.CPD:TabularCPD.marginalize",
    "pgmpy.factors.discrete.CPD:TabularCPD.reduce",
    "pgmpy.factors.discrete.CPD:TabularCPD.normalize",
    "pgmpy.factors.discrete.CPD:TabularCPD.reorder_parents",
    "pgmpy.factors.discrete.CPD:TabularCPD.to_factor",
    "pgmpy.factors.discrete.CPD:TabularCPD.copy",
    "pgmpy.factors.base:factor_product",
    "pgmpy.factors.base:factor_divide",
    "pgmpy.factors.base:factor_sum_product",
]
# entry points that change `self` by contract: only their *arguments* are fingerprinted
ARGS_ONLY = set()

_PM = None


def setup(ctx):
    global _PM
    from rv import monitors
    _PM = monitors.PurityMonitor()
    if (ctx.workload or "").startswith("P:"):
        _PM.install(PURITY_TARGETS)


def teardown(ctx):
    ev = {k: v for k, v in (_PM.evals if _PM else {}).items()}
    return {"purity_evaluations": sum(v for v in ev.values() if v > 0) + _H_STATS["questions"],
            "purity_by_entry": {k.split(":")[1]: v for k, v in ev.items() if v != 0},
            "purity_entry_points_not_found": sum(1 for v in ev.values() if v < 0),
            "cpd_list_reorders_reported": dict(_PM.reorders) if _PM else {},
            "history": dict(_H_STATS)}


_H_STATS = {"questions": 0, "histories": 0, "skipped_fresh_failed": 0, "shared_vs_fresh_compared": 0}


def gen_case(seed, idx, tier, workload="H"):
    rng = gen.rng_for("C16", workload, seed, idx)
    if workload == "H":
        return gen_history(rng)
    if workload == "R":
        return gen_repr(rng)
    if workload == "RD":
        return gen_repr_data(rng)
    if workload.startswith("P:"):
        mod = importlib.import_module("rv.props." + workload[2:])
        return {"rider": workload[2:], "inner": mod.gen_case(seed + 7919, idx, tier)}
    raise ValueError(workload)


def case_digest(spec):
    if "rider" in spec:
        mod = importlib.import_module("rv.props." + spec["rider"])
        inner = spec["inner"]
        return spec["rider"] + ":" + (mod.case_digest(inner) if hasattr(mod, "case_digest") else gen.spec_digest(inner))
    return gen.spec_digest(spec)


def run_case(spec, ctx):
    if "rider" in spec:
        return run_rider(spec, ctx)
    if spec["w"] == "H":
        return run_history(spec, ctx)
    if spec["w"] == "RD":
        return run_repr_data(spec, ctx)
    return run_repr(spec, ctx)


# ------------------------------------------------------------------ P : riding purity
def run_rider(spec, ctx):
    from rv import monitors
    mod = importlib.import_module("rv.props." + spec["rider"])
    sub = monitors.Ctx(spec["rider"], ctx.tier, backend=ctx.backend, hashseed=ctx.hashseed)
    sub.workload = None
    sub.seed = getattr(ctx, "seed", 0)
    before = sum(v for v in _PM.evals.values() if v > 0)
    _PM.drain()
    mod.run_case(spec["inner"], sub)           # the rider's own verdicts belong to its own check
    after = sum(v for v in _PM.evals.values() if v > 0)
    ctx.nontrivial = after > before
    ctx.ok(after - before)
    ctx.note("rider_violations_ignored_here", len(sub.violations))
    for v in _PM.drain():
        ctx.violation(classify_purity(v), f"{v['entry']} changed the content of `{v['what']}`",
                      before=v["before"], after=v["after"])


def classify_purity(v):
    e = v["entry"].split(":")[1]
    if e == "HillClimbSearch.estimate" and v["what"] in ("start_dag",) :
        return "c16:hc-start-dag-mutated"
    return f"c16:impure:{e}:{v['what']}"


# ------------------------------------------------------------------ H : histories
def gen_history(rng):
    connected_shapes = ["chain", "collider", "fork", "family", "er_dense"]
    bn = gen.rand_bn_spec(rng, n_range=(3, 6), cards=(2, 2, 3), kind=rng.choice(["id", "str", "int1", "perm"]),
                          shape=rng.choice(connected_shapes + ["er", "two_parts"]), max_joint=1024, min_card=2)
    nodes, J = oracle.joint_table(bn)
    from rv.props import C01
    qs = []
    for _ in range(rng.randint(5, 25)):
        if qs and rng.random() < 0.2:
            rq = dict(rng.choice(qs))              # repeat an earlier question verbatim ...
            if rq.get("virtual") and rng.random() < 0.5:
                # ... or the same question shape with other likelihood values (a cache keyed too coarsely
                # by variables / evidence would hand back the earlier answer)
                rq["virtual"] = [dict(d, vec=[round(min(1.0, max(0.02, 1.05 - x)), 3) for x in d["vec"]])
                                 for d in rq["virtual"]]
            qs.append(rq)
            continue
        eng = rng.choice(["ve", "ve", "ve", "bp", "bp", "ci", "samp"])
        query, ev, virt = C01.gen_query(rng, bn, nodes, J, allow_virtual=rng.random() < 0.4, max_q=2, max_e=2)
        q = {"eng": eng, "query": query, "evidence": ev, "virtual": virt}
        if eng == "ve":
            q["kind"] = rng.choice(["query", "query", "query_nj", "map", "map_all", "maxmarg"])
            q["order"] = rng.choice(["greedy", "MinFill", "MinNeighbors", "MinWeight", "WeightedMinFill", None, "perm"])
            if q["kind"] in ("map", "map_all", "maxmarg") and q["order"] in ("greedy", None):
                q["order"] = "MinFill"
            if q["order"] == "perm":
                el = [v for v in nodes if v not in query and v not in ev]
                rng.shuffle(el)
                q["order"] = el
                q["virtual"] = []
            if q["kind"] == "maxmarg":
                q["virtual"] = []
        elif eng == "bp":
            q["kind"] = rng.choice(["query", "query", "query_nj", "map", "calibrate", "max_calibrate"])
        elif eng == "ci":
            q["kind"] = "query"
            do = rng.choice(nodes)
            q["do"] = {do: rng.randrange(bn["card"][do])}
            par = [u for (u, v) in bn["edges"] if v == do]
            cand = [v for v in nodes if v != do and v not in par]
            if not cand:
                continue
            q["query"] = rng.sample(cand, 1)
            q["evidence"], q["virtual"] = {}, []
            q["algo"] = rng.choice(["ve", "bp"])
        else:
            q["kind"] = rng.choice(["forward", "forward", "rejection", "lw"])
            if q["evidence"]:
                _, pe = oracle.posterior(nodes, J, list(q["evidence"]), normalize=False)
                if float(pe[tuple(q["evidence"][v] for v in q["evidence"])]) < 0.05:
                    q["evidence"] = {}       # rejection loops are unbounded for rare evidence
            q["size"] = rng.choice([1, 5, 30])
            q["seed"] = rng.choice([0, 0, 1, 2 ** 32 - 1, rng.randrange(10 ** 6), rng.randrange(10 ** 6)])
            q["virtual"] = []
        qs.append(q)
    return {"w": "H", "bn": bn, "questions": qs, "build_seed": rng.randrange(10 ** 6)}


def _ask(engines, bn, q, model):
    """Ask question q on the engine set `engines` (dict name -> engine); returns a comparable answer."""
    from pgmpy.factors.discrete import State
    from rv.build import to_np
    from rv.props import C01
    states = bn["states"]
    ev = {v: states[v][s] for v, s in q["evidence"].items()}
    virt = C01.make_virtual(bn, q["virtual"]) if q.get("virtual") else None
    e = engines[q["eng"]]

    def fac(f):
        return {"vars": sorted(map(repr, f.variables)),
                "sn": {repr(v): list(map(repr, f.state_names[v])) for v in f.variables},
                "named": sorted((repr(sorted(k, key=repr)), round(val, 12))
                                for k, val in oracle.factor_named(f, to_np).items())}

    if q["eng"] == "ve":
        if q["kind"] == "query":
            return fac(e.query(list(q["query"]), evidence=ev or None, virtual_evidence=virt,
                               elimination_order=q["order"], show_progress=False))
        if q["kind"] == "query_nj":
            r = e.query(list(q["query"]), evidence=ev or None, virtual_evidence=virt,
                        elimination_order=q["order"], joint=False, show_progress=False)
            return {repr(k): fac(v) for k, v in r.items()}
        if q["kind"] == "map":
            r = e.map_query(list(q["query"]), evidence=ev or None, virtual_evidence=virt,
                            elimination_order=q["order"], show_progress=False)
            return ("map", sorted((repr(k), repr(v)) for k, v in r.items()))
        if q["kind"] == "map_all":
            r = e.map_query(None, evidence=ev or None, virtual_evidence=virt,
                            elimination_order=q["order"], show_progress=False)
            return ("mapkeys", sorted(repr(k) for k in r))
        if q["kind"] == "maxmarg":
            r = e.max_marginal(list(q["query"]), evidence=ev or None, elimination_order=q["order"],
                               show_progress=False)
            return ("mm", round(float(r), 12))
    if q["eng"] == "bp":
        if q["kind"] == "query":
            return fac(e.query(list(q["query"]), evidence=ev or None, virtual_evidence=virt, show_progress=False))
        if q["kind"] == "query_nj":
            r = e.query(list(q["query"]), evidence=ev or None, virtual_evidence=virt, joint=False,
                        show_progress=False)
            return {repr(k): fac(v) for k, v in r.items()}
        if q["kind"] == "map":
            r = e.map_query(list(q["query"]), evidence=ev or None, virtual_evidence=virt, show_progress=False)
            return ("map", sorted((repr(k), repr(v)) for k, v in r.items()))
        if q["kind"] == "calibrate":
            # calibrate, then read P(v) off the first clique belief that contains v
            e.calibrate()
            v = q["query"][0]
            beliefs = e.get_clique_beliefs()
            for clique in sorted(beliefs, key=lambda c: sorted(map(repr, c))):
                if v in clique:
                    b = beliefs[clique]
                    m = b.marginalize([x for x in b.variables if x != v], inplace=False).normalize(inplace=False)
                    return fac(m)
            raise KeyError(v)
        if q["kind"] == "max_calibrate":
            # max-calibrate, then read the max-marginal of v off the first clique belief that contains v
            e.max_calibrate()
            v = q["query"][0]
            beliefs = e.get_clique_beliefs()
            for clique in sorted(beliefs, key=lambda c: sorted(map(repr, c))):
                if v in clique:
                    b = beliefs[clique]
                    m = b.maximize([x for x in b.variables if x != v], inplace=False).normalize(inplace=False)
                    return fac(m)
            raise KeyError(v)
    if q["eng"] == "ci":
        do = {v: states[v][s] for v, s in q["do"].items()}
        return fac(e.query(list(q["query"]), do=do, inference_algo=q["algo"], show_progress=False))
    if q["eng"] == "samp":
        evl = [State(v, s) for v, s in ev.items()]
        if q["kind"] == "forward":
            df = e.forward_sample(size=q["size"], seed=q["seed"], show_progress=False)
        elif q["kind"] == "rejection":
            df = e.rejection_sample(evidence=evl, size=q["size"], seed=q["seed"], show_progress=False)
        else:
            df = e.likelihood_weighted_sample(evidence=evl, size=q["size"], seed=q["seed"], show_progress=False)
        cols = sorted(df.columns, key=repr)
        return ("df", [repr(c) for c in cols], [[repr(x) for x in df[c].tolist()] for c in cols])
    raise ValueError(q)


def _engines(model):
    from pgmpy.inference import BeliefPropagation, CausalInference, VariableElimination
    from pgmpy.sampling import BayesianModelSampling
    return {"ve": VariableElimination(model), "bp": BeliefPropagation(model),
            "ci": CausalInference(model), "samp": BayesianModelSampling(model)}


def _near(a, b):
    if isinstance(a, float) or isinstance(b, float):
        try:
            if a != a and b != b:
                return True
            return abs(a - b) <= 1e-9 + 1e-9 * abs(b)
        except Exception:
            return False
    if isinstance(a, (list, tuple)) and isinstance(b, (list, tuple)):
        return len(a) == len(b) and all(_near(x, y) for x, y in zip(a, b))
    if isinstance(a, dict) and isinstance(b, dict):
        return set(a) == set(b) and all(_near(a[k], b[k]) for k in a)
    return a == b


def run_history(spec, ctx):
    import random
    from rv import build, monitors
    bn = spec["bn"]
    shared_model = build.bayesian_network(bn, rng=random.Random(spec["build_seed"]))
    fp0 = monitors.fingerprint(shared_model)
    try:
        shared = _engines(shared_model)
    except Exception as e:            # engine construction refused (e.g. disconnected for BP): drop BP
        from pgmpy.inference import CausalInference, VariableElimination
        from pgmpy.sampling import BayesianModelSampling
        shared = {"ve": VariableElimination(shared_model), "ci": CausalInference(shared_model),
                  "samp": BayesianModelSampling(shared_model)}
    dead = set()
    kinds, good = set(), 0
    _H_STATS["histories"] += 1
    for qi, q in enumerate(spec["questions"]):
        if q["eng"] not in shared or q["eng"] in dead:
            continue
        fresh_model = build.bayesian_network(bn, rng=random.Random(spec["build_seed"]))
        fr = ctx.call(lambda: _ask({q["eng"]: _engines_one(q["eng"], fresh_model)}, bn, q, fresh_model))
        if ctx.failed(fr):
            _H_STATS["skipped_fresh_failed"] += 1
            ctx.note(f"fresh-engine-failed:{q['eng']}:{fr.type}")
            continue                      # not a successful question: not part of the history
        sh = ctx.call(lambda: _ask(shared, bn, q, shared_model))
        _H_STATS["questions"] += 1
        if ctx.failed(sh):
            ctx.violation(classify_history(q, spec["questions"][:qi], f"exception:{sh.type}"),
                          f"question #{qi} {q['eng']}.{q['kind']} raised {sh!r} on the shared engine after "
                          f"{qi} earlier questions but succeeds on a fresh engine", question=q)
            dead.add(q["eng"])
            continue
        _H_STATS["shared_vs_fresh_compared"] += 1
        if not _near(sh, fr):
            ctx.violation(classify_history(q, spec["questions"][:qi], "answer"),
                          f"question #{qi} {q['eng']}.{q['kind']}: shared-engine answer differs from fresh engine",
                          question=q, shared=sh, fresh=fr)
        else:
            ctx.ok()
        good += 1
        kinds.add((q["eng"], q["kind"]))
        if qi < 3 and q["eng"] in ("ve", "bp") and q["kind"] == "query":
            ctx.xcell[f"q{qi}"] = [v for (_, v) in fr["named"]]
    # the caller's model object must be untouched by the whole history
    ctx.expect(monitors.strip_order(monitors.fingerprint(shared_model)) == monitors.strip_order(fp0),
               "c16:history-mutated-model", "the model handed to the shared engines changed content during the history")
    ctx.nontrivial = good >= 3 and len(kinds) >= 2


def _engines_one(name, model):
    from pgmpy.inference import BeliefPropagation, CausalInference, VariableElimination
    from pgmpy.sampling import BayesianModelSampling
    return {"ve": VariableElimination, "bp": BeliefPropagation, "ci": CausalInference,
            "samp": BayesianModelSampling}[name](model)


def classify_history(q, earlier, what):
    """Structural classifier: which earlier question kind on the same engine explains the dependence."""
    same = [p for p in earlier if p["eng"] == q["eng"]]
    had_virtual = any(p.get("virtual") for p in same)
    if q["eng"] == "ve" and q["kind"] == "map_all" and had_virtual:
        return "c16:map-all-after-virtual-evidence"
    return f"c16:history:{q['eng']}.{q['kind']}:{what}" + (":after-virtual" if had_virtual else "")


# ------------------------------------------------------------------ R : renamings
def gen_repr(rng):
    bn = gen.rand_bn_spec(rng, n_range=(2, 6), max_joint=2048)
    nodes = bn["nodes"]
    name_kind = rng.choice(["str", "int", "tuple", "mixed"])
    new_names = {}
    perm = list(range(len(nodes)))
    rng.shuffle(perm)
    for i, v in enumerate(nodes):
        k = name_kind if name_kind != "mixed" else rng.choice(["str", "int", "tuple"])
        new_names[v] = {"str": f"n{perm[i]}x", "int": 100 + perm[i], "tuple": ("t", perm[i])}[k]
    # state relabelling: new label list + permutation of positions
    st = {}
    for v in nodes:
        k = bn["card"][v]
        pos = list(range(k))
        rng.shuffle(pos)               # new position p holds old state pos[p]
        lab_kind = rng.choice(["str", "int", "tuple"])
        labels = [{"str": f"L{j}", "int": 10 * j + 3, "tuple": (j, "z")}[lab_kind] for j in range(k)]
        st[v] = {"pos": pos, "labels": labels}
    nodes_, J = oracle.joint_table(bn)
    from rv.props import C01
    questions = []
    for _ in range(rng.randint(2, 4)):
        query, ev, _ = C01.gen_query(rng, bn, nodes_, J, allow_virtual=False)
        questions.append({"query": query, "evidence": ev,
                          "order": rng.choice(["greedy", "MinFill", "MinWeight", "MinNeighbors", None])})
    return {"w": "R", "bn": bn, "names": new_names, "st": st, "questions": questions,
            "seed_a": rng.randrange(10 ** 6), "seed_b": rng.randrange(10 ** 6), "pa_seed": rng.randrange(10 ** 6)}


def reexpress(spec):
    """The same distribution under renamed variables, renamed + reordered states, shuffled parent order."""
    import random
    bn, names, st = spec["bn"], spec["names"], spec["st"]
    rng = random.Random(spec["pa_seed"])
    card = bn["card"]
    new = {"nodes": [names[v] for v in bn["nodes"]],
           "edges": [[names[u], names[v]] for u, v in bn["edges"]],
           "card": {names[v]: card[v] for v in bn["nodes"]},
           "states": {names[v]: list(st[v]["labels"]) for v in bn["nodes"]},
           "latents": [names[v] for v in bn.get("latents", [])], "cpds": {}, "kind": "renamed"}
    for v in bn["nodes"]:
        c = bn["cpds"][v]
        old_pa = list(c["parents"])
        new_pa = old_pa[:]
        rng.shuffle(new_pa)
        r = card[v]
        q = 1
        for p in new_pa:
            q *= card[p]
        table = [[0.0] * q for _ in range(r)]
        import itertools
        for newcfg in itertools.product(*[range(card[p]) for p in new_pa]):
            oldstate = {p: st[p]["pos"][s] for p, s in zip(new_pa, newcfg)}
            oldcol = 0
            for p in old_pa:
                oldcol = oldcol * card[p] + oldstate[p]
            newcol = 0
            for p, s in zip(new_pa, newcfg):
                newcol = newcol * card[p] + s
            for i in range(r):
                table[i][newcol] = c["table"][st[v]["pos"][i]][oldcol]
        new["cpds"][names[v]] = {"parents": [names[p] for p in new_pa], "table": table}
    return new


def run_repr(spec, ctx):
    import random
    from pgmpy.inference import BeliefPropagation, VariableElimination
    from rv import build
    from rv.build import to_np
    bn = spec["bn"]
    ctx.nontrivial = len(bn["nodes"]) >= 2 and len(bn["edges"]) >= 1
    new = reexpress(spec)
    names, st = spec["names"], spec["st"]
    ma = build.bayesian_network(bn, rng=random.Random(spec["seed_a"]))
    mb = ctx.call(build.bayesian_network, new, rng=random.Random(spec["seed_b"]))
    if ctx.failed(mb):
        return ctx.violation(f"c16:renamed-model-rejected:{mb.type}@{mb.where}",
                             f"the renamed / reordered spec was rejected: {mb!r}", names=names)
    # label of old state index s of v in the new model
    def newlabel(v, s):
        p = st[v]["pos"].index(s)
        return st[v]["labels"][p]

    for qi, q in enumerate(spec["questions"]):
        ev_a = {v: bn["states"][v][s] for v, s in q["evidence"].items()}
        ev_b = {names[v]: newlabel(v, s) for v, s in q["evidence"].items()}
        for eng_name, Eng in (("ve", VariableElimination), ("bp", BeliefPropagation)):
            kw = {"elimination_order": q["order"]} if eng_name == "ve" else {}
            ra = ctx.call(lambda: Eng(ma).query(list(q["query"]), evidence=ev_a or None, show_progress=False, **kw))
            if ctx.failed(ra):
                ctx.note(f"original-failed:{eng_name}:{ra.type}")
                continue            # failures of the original representation belong to C01 / C02
            rb = ctx.call(lambda: Eng(mb).query([names[v] for v in q["query"]], evidence=ev_b or None,
                                                show_progress=False, **kw))
            if ctx.failed(rb):
                if eng_name == "bp":
                    ctx.note(f"renamed-failed:bp:{rb.type}")   # BP label defects are classified by C02
                    continue
                tuple_names = any(isinstance(n, tuple) for n in names.values())
                key = f"c16:renamed-query-failed:{eng_name}:{rb.type}@{rb.where}"
                if tuple_names and rb.where.endswith(":remove_cpds") and isinstance(q["order"], str) \
                        and q["order"] != "greedy":
                    key = "c16:remove-cpds-nonstring-node"
                ctx.violation(key,
                              f"{eng_name} query succeeds on the original but raises on the renamed model: {rb!r}",
                              names=names, q=q)
                continue
            try:
                na = oracle.factor_named(ra, to_np)
                nb = oracle.factor_named(rb, to_np)
            except Exception as e:
                ctx.note(f"unreadable:{eng_name}")
                continue
            # map original named assignment -> renamed named assignment
            mapped = {}
            try:
                for key, val in na.items():
                    k2 = frozenset((names[v], newlabel(v, bn["states"][v].index(s))) for (v, s) in key)
                    mapped[k2] = val
            except Exception:
                ctx.note(f"labels-not-model-labels:{eng_name}")
                continue
            if eng_name == "bp" and set(mapped) != set(nb):
                ctx.note("bp-label-mismatch(C02)")
                continue
            diff = oracle.named_close(nb, mapped, **ctx.tol())
            if diff:
                ctx.violation(f"c16:renaming-changes-answer:{eng_name}", f"{eng_name}: after mapping names back: {diff}",
                              names=names, q=q)
            else:
                ctx.ok()
            if eng_name == "ve" and qi == 0:
                ctx.xcell["r0"] = [val for _, val in sorted(((repr(sorted(k, key=repr)), v) for k, v in na.items()))]


# ------------------------------------------------------------------ RD : renamings / insertion order, data-driven
def gen_repr_data(rng):
    """A data set sampled from a random BN, a DAG to fit on it, and a re-expression of both: renamed columns,
    relabelled states, shuffled column / node / edge insertion order."""
    import itertools
    truth = gen.rand_bn_spec(rng, n_range=(3, 5), cards=(2, 2, 3), kind="id", max_joint=243, min_card=2,
                             names=["zeta", "alpha", "mid", "beta", "omega"])
    nodes = truth["nodes"]
    order = gen.topo_order(nodes, [tuple(e) for e in truth["edges"]])
    rows = []
    for _ in range(rng.randint(40, 160)):
        a = {}
        for v in order:
            c = truth["cpds"][v]
            col = 0
            for x in c["parents"]:
                col = col * truth["card"][x] + a[x]
            r, acc = rng.random(), 0.0
            k = 0
            for i in range(truth["card"][v]):
                acc += c["table"][i][col]
                if r <= acc:
                    k = i
                    break
            else:
                k = truth["card"][v] - 1
            a[v] = k
        rows.append([a[v] for v in nodes])
    # the DAG that is fitted: the truth's edges plus/minus one edge, parents in NON-sorted insertion order
    edges = [tuple(e) for e in truth["edges"]]
    cand = [(u, v) for u, v in itertools.permutations(nodes, 2) if (u, v) not in edges and (v, u) not in edges]
    rng.shuffle(cand)
    for e in cand[:2]:
        if oracle.is_acyclic(nodes, edges + [e]):
            edges.append(e)
    edges.sort(key=lambda e: (e[1], e[0]), reverse=True)     # reverse-sorted parents per child
    perm = list(range(len(nodes)))
    rng.shuffle(perm)
    new_names = {v: f"c{perm[i]}_{'x' * (i % 2)}" for i, v in enumerate(nodes)}
    relabel = {}
    for v in nodes:
        k = truth["card"][v]
        labs = [10 * (k - j) + 1 for j in range(k)] if rng.random() < 0.5 else [f"s{(j + 1) % k}{v[0]}" for j in range(k)]
        relabel[v] = labs
    return {"w": "RD", "nodes": nodes, "card": truth["card"], "rows": rows, "edges": [list(e) for e in edges],
            "names": new_names, "relabel": relabel, "shuffle_seed": rng.randrange(10 ** 6),
            "ess": rng.choice([1, 5, 10])}


def run_repr_data(spec, ctx):
    import random
    import pandas as pd
    from pgmpy.estimators import BayesianEstimator, BDeuScore, BicScore, K2Score, MaximumLikelihoodEstimator
    from pgmpy.models import BayesianNetwork
    from rv.build import to_np
    nodes, rows, names, relabel = spec["nodes"], spec["rows"], spec["names"], spec["relabel"]
    edges = [tuple(e) for e in spec["edges"]]
    ctx.nontrivial = len(edges) >= 1 and len(rows) >= 20
    rng = random.Random(spec["shuffle_seed"])
    df_a = pd.DataFrame(rows, columns=nodes)
    cols_b = nodes[:]
    rng.shuffle(cols_b)
    df_b = pd.DataFrame({names[v]: pd.Series([relabel[v][r[nodes.index(v)]] for r in rows], dtype=object)
                         for v in cols_b})
    if rng.random() < 0.5:
        df_b = df_b.sample(frac=1.0, random_state=spec["shuffle_seed"] % 1000).reset_index(drop=True)
    sn_a = {v: list(range(spec["card"][v])) for v in nodes}
    sn_b = {names[v]: list(relabel[v]) for v in nodes}
    edges_b = [(names[u], names[v]) for u, v in edges]
    rng.shuffle(edges_b)
    nodes_b = [names[v] for v in nodes]
    rng.shuffle(nodes_b)

    def model(ns, es):
        m = BayesianNetwork()
        m.add_nodes_from(ns)
        m.add_edges_from(es)
        return m

    def named(cpd, back=None):
        out = {}
        for k, val in oracle.factor_named(cpd, to_np).items():
            if back is not None:
                k = frozenset((back[0][v], back[1][back[0][v]][s]) for v, s in k)
            out[k] = val
        return out
    inv_name = {names[v]: v for v in nodes}
    inv_state = {v: {relabel[v][i]: i for i in range(spec["card"][v])} for v in nodes}

    for est_name, kw in (("mle", {}), ("bdeu", {"prior_type": "BDeu", "equivalent_sample_size": spec["ess"]})):
        Est = MaximumLikelihoodEstimator if est_name == "mle" else BayesianEstimator
        ma, mb = model(nodes, edges), model(nodes_b, edges_b)
        ra = ctx.call(lambda: ma.fit(df_a, estimator=Est, state_names=sn_a, **kw))
        if ctx.failed(ra):
            ctx.note(f"original-fit-failed:{est_name}:{ra.type}")
            continue
        rb = ctx.call(lambda: mb.fit(df_b, estimator=Est, state_names=sn_b, **kw))
        if ctx.failed(rb):
            ctx.violation(f"c16:renamed-fit-failed:{est_name}:{rb.type}@{rb.where}",
                          f"{est_name} fit succeeds on the original frame/model but raises on the renamed, "
                          f"re-ordered one: {rb!r}", names=names)
            continue
        for v in nodes:
            try:
                a = named(ma.get_cpds(v))
                b = named(mb.get_cpds(names[v]), back=(inv_name, inv_state))
            except Exception as e:
                ctx.violation("c16:renamed-fit-unreadable", f"{est_name}: CPD of {v!r}: {type(e).__name__}: {e}")
                continue
            diff = oracle.named_close(b, a, atol=1e-9, rtol=1e-9)
            if diff:
                ctx.violation(f"c16:representation-changes-fit:{est_name}",
                              f"{est_name} CPD of {v!r} differs after renaming columns / relabelling states / "
                              f"re-ordering insertion: {diff}", names=names, edges=edges)
            else:
                ctx.ok()
    # scores of every family under renaming and parent-order permutation
    par = {v: [u for (u, w) in edges if w == v] for v in nodes}
    for Score, skw in ((K2Score, {}), (BicScore, {}), (BDeuScore, {"equivalent_sample_size": spec["ess"]})):
        sa = ctx.call(lambda: Score(df_a, state_names=sn_a, **skw))
        sb = ctx.call(lambda: Score(df_b, state_names=sn_b, **skw))
        if ctx.failed(sa) or ctx.failed(sb):
            ctx.note(f"scorer-construction-failed:{Score.__name__}")
            continue
        for v in nodes:
            pa = par[v]
            pb = [names[u] for u in pa]
            rng.shuffle(pb)
            xa = ctx.call(sa.local_score, v, list(pa))
            xb = ctx.call(sb.local_score, names[v], pb)
            if ctx.failed(xa):
                continue
            if ctx.failed(xb):
                ctx.violation(f"c16:renamed-score-failed:{Score.__name__}:{xb.type}@{xb.where}",
                              f"{Score.__name__}.local_score raises only on the renamed frame: {xb!r}")
                continue
            ctx.expect(abs(float(xa) - float(xb)) <= 1e-9 + 1e-9 * abs(float(xa)),
                       f"c16:representation-changes-score:{Score.__name__}",
                       f"{Score.__name__}.local_score({v!r}, {pa!r}) = {float(xa)!r} but {float(xb)!r} after renaming / "
                       f"relabelling / parent-order permutation")
