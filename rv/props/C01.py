"""C01 - exact posterior by variable elimination == conditional of the CPD-product joint.

Observe: VariableElimination(model).query(...) for every elimination-order option x joint
mode, BayesianNetwork.predict_probability and get_state_probability.
Oracle : brute-force joint of the spec -> slice hard evidence -> multiply virtual-evidence
likelihoods -> sum out -> normalise; compared per NAMED assignment.
"""
import itertools

import numpy as np

from rv import gen, oracle

PLAN = {
    "quick": {"cases": 2400, "hashseeds": 3, "shards": 5, "timeout": 420, "min_nontrivial": 400},
    "thorough": {"cases": 6000, "hashseeds": 12, "shards": 4, "timeout": 3000, "min_nontrivial": 1500,
                 "backends": ["numpy", "torch"], "torch_cases": 600, "torch_shards": 2, "torch_hashseeds": 1},
}
RULE = ("random discrete BNs (1-7 nodes; templates: ER, chain, collider, fork, >=3-parent family, two parts, "
        "isolated node, multi-route ancestors with random node names, 'twin sensor' nodes with identical CPDs; "
        "cards 1-4; state names id/1-based/permuted ints/strings/tuples/mixed; zeros, deterministic columns and "
        "columns with entries down to 1e-13) x query of 1-3 vars x 0-3 hard evidence with P(e)>0 (checked by the "
        "oracle; twins observed in the same state) x 0-2 virtual-evidence vectors x every elimination-order option "
        "x joint in {True,False}; in 60% of cases with evidence the engine first answers a decoy question of the "
        "same shape. non-trivial: >=2 nodes, >=1 edge, and evidence or a non-query variable present; distinct by "
        "digest of the whole spec")
ASSUMPTIONS = ["brute-force joint (<= 4096 cells) is the reference", "float64 comparisons at 1e-9 (2e-6 in torch cells)",
               "longer engine histories are C16's workload; C01 only asks one decoy question first"]
MANIFEST = {
    "text": "On every generated network / query / evidence / virtual evidence and for every elimination-order option "
            "and both result modes, the posterior returned by VariableElimination.query (and predict_probability, "
            "get_state_probability) equals the conditional of the brute-force CPD-product joint per named assignment "
            "and carries the model's state names, in 3 (quick) / 12 (thorough) hash-seed processes and a torch cell. "
            "Exploration only: nothing is claimed outside the generated domain (<= 8 variables, cards <= 4).",
    "technique": "runtime monitoring: brute-force-joint reference monitor on VariableElimination.query over seeded hostile "
                 "inputs, hash-seed / backend fan-out, sys.monitoring reach counters on the anchored mechanisms",
}
REACH = [
    "pgmpy.inference.base:Inference._prune_bayesian_model",
    "pgmpy.inference.base:Inference._virtual_evidence",
    "pgmpy.inference.ExactInference:VariableElimination._variable_elimination",
    "pgmpy.inference.ExactInference:VariableElimination._get_working_factors",
    "pgmpy.inference.ExactInference:VariableElimination._get_elimination_order",
    "pgmpy.inference.EliminationOrder:MinFill.cost",
    "pgmpy.inference.EliminationOrder:MinWeight.cost",
    "pgmpy.inference.EliminationOrder:MinNeighbors.cost",
    "pgmpy.inference.EliminationOrder:WeightedMinFill.cost",
    "pgmpy.models.BayesianNetwork:BayesianNetwork.get_state_probability",
    "pgmpy.models.BayesianNetwork:BayesianNetwork.predict_probability",
]
REACH_REQUIRED = REACH[:9]

ORDERS = ["greedy", "MinFill", "MinNeighbors", "MinWeight", "WeightedMinFill", None, "perm1", "perm2"]


def gen_query(rng, bn, nodes, J, allow_virtual=True, max_q=3, max_e=3):
    """query vars, hard evidence (state index) with P(e)>0, virtual evidence vectors."""
    card, n = bn["card"], len(nodes)
    k = rng.randint(1, min(max_q, n))
    query = rng.sample(nodes, k)
    rest = [v for v in nodes if v not in query]
    virt = []
    if allow_virtual and rng.random() < 0.35:
        # virtual evidence may sit on query variables or others, not on hard evidence
        for v in rng.sample(nodes, rng.randint(1, min(2, n))):
            vec = [round(rng.choice([0.05, 0.2, 0.5, 0.7, 0.9, 1.0]), 3) for _ in range(card[v])]
            if rng.random() < 0.2 and card[v] > 1:
                vec[rng.randrange(card[v])] = 0.0
            if sum(vec) == 0:
                vec[0] = 0.5
            virt.append({"var": v, "vec": vec, "form": rng.choice(["cpd", "cpd", "factor"])})
    vvars = [d["var"] for d in virt]
    W = np.array(J, dtype=float)
    for d in virt:
        shp = [1] * W.ndim
        shp[nodes.index(d["var"])] = len(d["vec"])
        W = W * np.array(d["vec"]).reshape(shp)
    if W.sum() <= 0:                       # virtual evidence of zero probability: drop it
        virt, vvars, W = [], [], np.array(J, dtype=float)
    ev = {}
    cand = [v for v in rest if v not in vvars]
    for e in rng.sample(cand, rng.randint(0, min(max_e, len(cand)))):
        ax = nodes.index(e)
        sl = [slice(None)] * n
        for e2, s2 in ev.items():
            sl[nodes.index(e2)] = s2
        probs = []
        for s in range(card[e]):
            sl2 = list(sl)
            sl2[ax] = s
            probs.append(W[tuple(sl2)].sum())
        ok = [s for s in range(card[e]) if probs[s] > 1e-12]
        if not ok:
            continue
        # prefer rare-but-possible states sometimes
        ev[e] = rng.choice(ok)
    return query, ev, virt


def multi_route_spec(rng):
    """Networks in which an ancestor of the sink has several parents and one of them reaches the sink by
    another route as well (Z->X, P->X, X->Q, Z->Q and larger relatives).  Node NAMES are drawn at random so
    that set / dict iteration order - which drives the d-separation search used for pruning - differs from
    case to case and from hash seed to hash seed.  Priors are far from uniform."""
    alphabet = "abcdefghijklmnopqrstuvwxyz"
    names = []
    while len(names) < 6:
        nm = "".join(rng.choice(alphabet) for _ in range(rng.randint(1, 4)))
        if nm not in names:
            names.append(nm)
    z, p, x, q, w, y = names
    edges = [(z, x), (p, x), (x, q), (z, q)]
    nodes = [z, p, x, q]
    extra = rng.random()
    if extra < 0.35:                       # a longer second route and a second multi-parent ancestor
        edges += [(w, x), (w, y), (y, q)]
        nodes += [w, y]
    elif extra < 0.6:                      # the sink's descendant is what is asked
        edges += [(q, w)]
        nodes += [w]
    rng.shuffle(nodes)
    card = {v: rng.choice([2, 2, 3]) for v in nodes}
    kind = rng.choice(["id", "str", "int1", "perm"])
    states = {v: gen.state_names_for(rng, v, card[v], kind) for v in nodes}
    par = gen.parents_of(nodes, edges)
    cpds = {}
    for v in nodes:
        pa = par[v][:]
        rng.shuffle(pa)
        qn = 1
        for u in pa:
            qn *= card[u]
        if not pa:                         # skewed prior
            col = [rng.choice([0.05, 0.1, 0.15]) for _ in range(card[v])]
            col[rng.randrange(card[v])] = 1.0 - sum(col) + max(col)
            tot = sum(col)
            col = [c / tot for c in col]
            col[0] = 1.0 - sum(col[1:])
            table = [[c] for c in col]
        else:
            table = gen.rand_cpt(rng, card[v], qn, zeros=False)
        cpds[v] = {"parents": pa, "table": table}
    sink = q if extra >= 0.6 or extra < 0.35 else w
    return {"nodes": nodes, "edges": [list(e) for e in edges], "card": card, "states": states, "cpds": cpds,
            "latents": [], "kind": kind, "mr_sink": sink}


def add_twins(rng, bn, max_joint=4096):
    """Redundant "sensor" nodes: a copy of an existing non-root node with the same parents (same declared
    order), same states and the same table.  Observing a node and its twin in the same state makes two
    CPDs reduce to value-identical factors over the same scope - equal factors must both be used."""
    cands = [v for v in bn["nodes"] if bn["cpds"][v]["parents"] and bn["card"][v] >= 2]
    out = []
    rng.shuffle(cands)
    for v in cands[:rng.choice([1, 1, 2])]:
        tot = bn["card"][v]
        for x in bn["nodes"]:
            tot *= bn["card"][x]
        if tot > max_joint or len(bn["nodes"]) >= 8:
            break
        t = f"{v}tw{len(out)}" if isinstance(v, str) else (v, "tw")
        bn["nodes"].append(t)
        bn["card"][t] = bn["card"][v]
        bn["states"][t] = list(bn["states"][v])
        pa = list(bn["cpds"][v]["parents"])
        bn["cpds"][t] = {"parents": pa, "table": [list(r) for r in bn["cpds"][v]["table"]]}
        for p in pa:
            bn["edges"].append([p, t])
        out.append((v, t))
    return out


def force_twin_evidence(rng, bn, nodes, J, twins, query, ev, virt):
    """Put hard evidence with the same state on a node and its twin whenever that has positive probability."""
    import numpy as np
    vvars = {d["var"] for d in virt}
    for (v, t) in twins:
        if v in query or t in query or v in vvars or t in vvars:
            if len(nodes) - len(query) >= 2 and rng.random() < 0.7:
                for x in (v, t):
                    if x in query and len(query) > 1:
                        query.remove(x)
            if v in query or t in query or v in vvars or t in vvars:
                continue
        W = np.array(J, dtype=float)
        for d in virt:
            shp = [1] * W.ndim
            shp[nodes.index(d["var"])] = len(d["vec"])
            W = W * np.array(d["vec"]).reshape(shp)
        base = {k: s for k, s in ev.items() if k not in (v, t)}
        ok = []
        for s_ in range(bn["card"][v]):
            sl = [slice(None)] * len(nodes)
            for k, s0 in list(base.items()) + [(v, s_), (t, s_)]:
                sl[nodes.index(k)] = s0
            if W[tuple(sl)].sum() > 1e-12:
                ok.append(s_)
        if ok:
            s_ = rng.choice(ok)
            ev[v] = s_
            ev[t] = s_


def gen_case(seed, idx, tier):
    rng = gen.rng_for("C01", seed, idx)
    use_virtual = rng.random() < 0.4
    bn = gen.rand_bn_spec(rng, n_range=(1, 7), max_joint=4096, tiny=0.25 if rng.random() < 0.3 else 0.0)
    multi_route = rng.random() < 0.15
    if multi_route:
        bn = multi_route_spec(rng)
    twins = add_twins(rng, bn) if (rng.random() < 0.3 and not multi_route) else []
    nodes, J = oracle.joint_table(bn)
    query, ev, virt = gen_query(rng, bn, nodes, J, allow_virtual=use_virtual)
    if multi_route and rng.random() < 0.7:
        # ask about the sink with little or no evidence, so that pruning must keep EVERY ancestor
        query, virt = [bn["mr_sink"]], []
        ev = {k: v for k, v in ev.items() if k != bn["mr_sink"]} if rng.random() < 0.3 else {}
    if twins:
        force_twin_evidence(rng, bn, nodes, J, twins, query, ev, virt)
    elim = [v for v in nodes if v not in query and v not in ev]
    perms = []
    for _ in range(2):
        p = elim[:]
        rng.shuffle(p)
        perms.append(p)
    # predict_probability / get_state_probability side checks
    decoy = None
    if (virt or ev) and rng.random() < 0.6:
        dv = [dict(d, vec=[round(min(1.0, max(0.02, 1.05 - x)), 3) for x in d["vec"]]) for d in virt]
        dev = {}
        for v, s_ in ev.items():
            # same evidence variables; for hard-only cases move one variable to another state
            dev[v] = s_
        if not virt and ev:
            v0 = sorted(ev, key=repr)[0]
            if bn["card"][v0] > 1:
                dev[v0] = (ev[v0] + 1) % bn["card"][v0]
        decoy = {"virtual": dv, "evidence": {v: bn["states"][v][s_] for v, s_ in dev.items()}}
    return {"bn": bn, "decoy": decoy, "query": query, "evidence": ev, "virtual": virt, "perms": perms,
            "build_seed": rng.randrange(10 ** 6), "gsp": rng.random() < 0.3, "pp": rng.random() < 0.25}


def make_virtual(spec_bn, virt):
    from pgmpy.factors.discrete import DiscreteFactor, TabularCPD
    out = []
    for d in virt:
        v = d["var"]
        sn = {v: list(spec_bn["states"][v])}
        if d["form"] == "cpd":
            out.append(TabularCPD(v, len(d["vec"]), [[x] for x in d["vec"]], state_names=sn))
        else:
            out.append(DiscreteFactor([v], [len(d["vec"])], list(d["vec"]), state_names=sn))
    return out


def check_factor(ctx, got, query, states, expect_arr, label, **detail):
    """Compare a returned factor with the oracle array (axes = query) per named assignment."""
    from rv.build import to_np
    try:
        if set(got.variables) != set(query) or len(got.variables) != len(query):
            return ctx.violation("c01:wrong-scope", f"{label}: result scope {got.variables} != query {query}", **detail)
        for v in query:
            if list(got.state_names[v]) != list(states[v]):
                return ctx.violation("c01:state-names", f"{label}: state names of {v!r} are {got.state_names[v]!r}, "
                                     f"model has {states[v]!r}", **detail)
        a = oracle.factor_named(got, to_np)
    except Exception as e:
        return ctx.violation("c01:malformed-result", f"{label}: cannot read result: {type(e).__name__}: {e}", **detail)
    b = oracle.array_named(query, states, expect_arr)
    diff = oracle.named_close(a, b, **ctx.tol())
    if diff:
        return ctx.violation("c01:wrong-posterior", f"{label}: {diff}", **detail)
    ctx.ok()


def run_case(spec, ctx):
    import random

    import pandas as pd
    from pgmpy.inference import VariableElimination
    from rv import build

    bn = spec["bn"]
    nodes, J = oracle.joint_table(bn)
    states, card = bn["states"], bn["card"]
    query, ev, virt = spec["query"], spec["evidence"], spec["virtual"]
    model = build.bayesian_network(bn, rng=random.Random(spec["build_seed"]))
    ev_named = {v: states[v][s] for v, s in ev.items()}
    likes = {}
    for d in virt:
        likes[d["var"]] = np.array(d["vec"]) * likes.get(d["var"], 1.0)
    _, post = oracle.posterior(nodes, J, query, ev, likes)
    ctx.nontrivial = len(nodes) >= 2 and len(bn["edges"]) >= 1 and (len(ev) > 0 or len(query) < len(nodes))
    if "mr_sink" in bn:
        ctx.feature("multi-route-ancestors")
    if any(isinstance(n, str) and "tw" in n for n in ev):
        ctx.feature("twin-evidence")
    for f in ("virtual" if virt else None, "evidence" if ev else None, f"kind:{bn['kind']}",
              "card1" if 1 in card.values() else None):
        if f:
            ctx.feature(f)
    detail = dict(q=query, ev=ev_named, virt=virt)

    for oi, order in enumerate(ORDERS):
        if order in ("perm1", "perm2"):
            eo = list(spec["perms"][0 if order == "perm1" else 1])
            if virt:
                continue       # explicit orders cannot name the engine's private "__x" nodes
        else:
            eo = order
        for joint in (True, False):
            ve = VariableElimination(model)
            if spec.get("decoy") and (oi + int(joint)) % 2 == 0:
                # the engine first answers a *different* question of the same shape (same variables and hard
                # evidence, other likelihood values / other evidence state); the judged answer must not depend on it
                dq = spec["decoy"]
                ctx.call(ve.query, list(query), evidence=dq["evidence"] or None,
                         virtual_evidence=make_virtual(bn, dq["virtual"]) if dq["virtual"] else None,
                         elimination_order=eo, joint=joint, show_progress=False)
                ctx.note("decoy-question-asked-first")
            r = ctx.call(ve.query, list(query), evidence=dict(ev_named) or None,
                         virtual_evidence=make_virtual(bn, virt) if virt else None,
                         elimination_order=eo, joint=joint, show_progress=False)
            label = f"query(order={order}, joint={joint})"
            if ctx.failed(r):
                ctx.violation(f"c01:exception:{r.type}@{r.where}", f"{label} raised {r!r}", **detail)
                continue
            if joint:
                check_factor(ctx, r, query, states, post, label, **detail)
            else:
                if not isinstance(r, dict) or set(r) != set(query):
                    ctx.violation("c01:wrong-scope", f"{label}: keys {list(r) if isinstance(r, dict) else type(r)}", **detail)
                    continue
                for v in query:
                    m = oracle.marginal(query, post, [v])
                    check_factor(ctx, r[v], [v], states, m, label + f"[{v}]", **detail)

    # refusal: query and evidence overlap must raise ValueError
    if ev:
        e0 = next(iter(ev_named))
        r = ctx.call(VariableElimination(model).query, [e0], evidence=dict(ev_named), show_progress=False)
        ctx.expect(ctx.failed(r) and r.type == "ValueError", "c01:overlap-not-refused",
                   f"query variable {e0!r} also in evidence was not refused: {r!r}")

    # get_state_probability: marginal probability of a partial assignment
    if spec["gsp"]:
        part = dict(ev)
        for v in query[:1]:
            part[v] = 0
        _, m = oracle.posterior(nodes, J, list(part), normalize=False)
        want = float(m[tuple(part[v] for v in part)])
        r = ctx.call(model.get_state_probability, {v: states[v][s] for v, s in part.items()})
        if ctx.failed(r):
            ctx.violation(f"c01:exception:{r.type}@{r.where}", f"get_state_probability raised {r!r}", part=part)
        else:
            ctx.expect(abs(float(r) - want) <= ctx.tol()["atol"] + ctx.tol()["rtol"] * want, "c01:state-probability",
                       f"get_state_probability={float(r)!r}, joint says {want!r}", part=part)

    # predict_probability: one row per evidence assignment, columns '<var>_<state>'
    if spec["pp"] and ev and not virt and len(ev) < len(nodes) and bn["kind"] in ("id", "int1", "perm", "str") \
            and ctx.backend == "numpy":
        cols = list(ev)
        df = pd.DataFrame({c: pd.Series([states[c][ev[c]]], dtype=object) for c in cols})
        missing = [v for v in nodes if v not in ev]
        r = ctx.call(model.predict_probability, df)
        if ctx.failed(r):
            ctx.violation(f"c01:exception:{r.type}@{r.where}", f"predict_probability raised {r!r}", **detail)
        else:
            _, pm = oracle.posterior(nodes, J, missing, ev)
            for v in missing:
                m = oracle.marginal(missing, pm, [v])
                for k, s in enumerate(states[v]):
                    col = f"{v}_{s}"
                    if col not in r.columns:
                        ctx.violation("c01:predict-probability", f"column {col} missing", cols=list(r.columns))
                        continue
                    ctx.expect(abs(float(r[col].iloc[0]) - float(m[k])) <= 1e-9, "c01:predict-probability",
                               f"predict_probability[{col}]={float(r[col].iloc[0])!r} expected {float(m[k])!r}", **detail)
