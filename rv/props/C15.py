"""C15 - models stay structurally consistent under any edit history.

One case = one history: a seeded sequence of 5-60 public editing operations (about a quarter of
them deliberately invalid) applied to a pool of live objects that starts with one empty model
and grows by copy() / do() / get_random_cpds() / construction.  After EVERY step every object
of the pool is snapshotted (nodes, edges, latent set, CPD / factor contents) and judged:

  I1  BayesianNetwork / DynamicBayesianNetwork (and DAG *construction*) never hold a directed
      cycle; a JunctionTree never holds a cycle (independent DFS / union-find on the raw
      adjacency dicts).  I1 is additionally installed as icontract.invariant on the three classes.
  I2  a single operation that raised left the target's snapshot unchanged.
  I3  after remove_node(s) / do every remaining CPD (that was consistent before) sits on a node
      of the graph, has evidence set == graph parents, has columns summing to 1 and equals the
      uniform average of the old table over the dropped parents.
  I4  a step applied to object A changes no snapshot of any other object of the pool and no
      cached query answer of an untouched object; non-inplace operations do not change A.

Step arguments are late-bound: the spec stores op, mode flags and a per-step seed; the concrete
nodes / edges / CPDs are chosen at run time from the *sorted* observable state of the real
object, so the history stays meaningful even when pgmpy's behaviour departs from expectation and
is identical in every hash-seed cell.
"""
import hashlib
import os
import random

import numpy as np

from rv import gen
from rv.props import C15_ops as ops

PLAN = {
    "quick": {"cases": 10000, "hashseeds": 3, "shards": 5, "timeout": 420, "min_nontrivial": 4000},
    "thorough": {"cases": 20000, "hashseeds": 8, "shards": 2, "timeout": 3000, "min_nontrivial": 9000},
}
_SCALE = float(os.environ.get("RV_C15_SCALE", "1") or 1)        # development aid: shrink / stretch the case counts
if _SCALE != 1:
    for _t in PLAN.values():
        _t["cases"] = max(30, int(_t["cases"] * _SCALE))
        _t["min_nontrivial"] = max(5, int(_t["min_nontrivial"] * _SCALE))
RULE = ("one case = one edit history of 5-60 steps (thorough: up to 110) on a pool (<= 5, thorough <= 7 live objects) that starts from one empty "
        "model; kinds: BayesianNetwork (str or int node names, incl. latent flags), DAG/BayesianNetwork "
        "construction from acyclic / cyclic / self-loop edge lists, DynamicBayesianNetwork ((name, slice) nodes), "
        "MarkovNetwork, JunctionTree; ops add_node(s)/add_edge(s)/remove_node(s)/add_cpds|factors/"
        "remove_cpds|factors/do/copy/get_random_cpds/check_model/get_cpds/query (each with its optional arguments: add_edge(weight=), add_edges_from(weights=[...], also of wrong length), add_node(weight=, latent=), add_nodes_from(weights=[...], latent=bool|list)) plus re-registration of a CPD after an edge into its node was added / removed (changed parent set or other parent order) and an aliasing probe (in-place "
        "marginalize/normalize of one attached CPD/factor through its handle) with ~25 % invalid arguments "
        "(cycle-closing edge, self loop, unknown node, foreign CPD variable, non-CPD object, backward / "
        "far-slice DBN edges, disjoint or unhashable cliques); cards 1-3; 6 names. non-trivial: >= 8 executed "
        "steps, >= 1 rejected call, >= 1 edge seen and >= 2 live objects compared; distinct by digest of the spec")
ASSUMPTIONS = ["the snapshot reads networkx's raw adjacency dicts (_node/_succ/_pred/_adj), the latents "
               "attribute and the cpds/factors lists; state outside these is not observed",
               "batch calls (add_*_from / several CPDs in one call) that raise after applying a prefix are "
               "counted (note batch-partial) but not judged by I2, which the statement limits to single operations",
               "query answers come from a fresh VariableElimination / get_partition_function per question",
               "uniform-average oracle for marginalised CPDs at atol 1e-9"]
REACH = [
    "pgmpy.models.BayesianNetwork:BayesianNetwork.add_edge",
    "pgmpy.models.BayesianNetwork:BayesianNetwork.remove_node",
    "pgmpy.models.BayesianNetwork:BayesianNetwork.remove_nodes_from",
    "pgmpy.models.BayesianNetwork:BayesianNetwork.add_cpds",
    "pgmpy.models.BayesianNetwork:BayesianNetwork.remove_cpds",
    "pgmpy.models.BayesianNetwork:BayesianNetwork.get_cpds",
    "pgmpy.models.BayesianNetwork:BayesianNetwork.copy",
    "pgmpy.models.BayesianNetwork:BayesianNetwork.do",
    "pgmpy.models.BayesianNetwork:BayesianNetwork.get_random_cpds",
    "pgmpy.models.BayesianNetwork:BayesianNetwork.check_model",
    "pgmpy.base.DAG:DAG.__init__",
    "pgmpy.base.DAG:DAG.add_node",
    "pgmpy.base.DAG:DAG.add_edges_from",
    "pgmpy.base.DAG:DAG.do",
    "pgmpy.models.DynamicBayesianNetwork:DynamicBayesianNetwork.add_edge",
    "pgmpy.models.DynamicBayesianNetwork:DynamicBayesianNetwork.add_cpds",
    "pgmpy.models.DynamicBayesianNetwork:DynamicBayesianNetwork.remove_cpds",
    "pgmpy.models.DynamicBayesianNetwork:DynamicBayesianNetwork.copy",
    "pgmpy.models.DynamicBayesianNetwork:DynamicBayesianNetwork.check_model",
    "pgmpy.models.JunctionTree:JunctionTree.add_edge",
    "pgmpy.models.JunctionTree:JunctionTree.copy",
    "pgmpy.models.ClusterGraph:ClusterGraph.add_edge",
    "pgmpy.models.ClusterGraph:ClusterGraph.add_factors",
    "pgmpy.models.MarkovNetwork:MarkovNetwork.add_edge",
    "pgmpy.models.MarkovNetwork:MarkovNetwork.add_factors",
    "pgmpy.models.MarkovNetwork:MarkovNetwork.copy",
    "pgmpy.factors.discrete.CPD:TabularCPD.marginalize",
    "pgmpy.factors.discrete.CPD:TabularCPD.copy",
]
REACH_REQUIRED = list(REACH)
MONITORS_REQUIRED = ["i1_invariant_evals"]
MANIFEST = {
    "text": "On generated edit histories (BayesianNetwork, DAG construction, DynamicBayesianNetwork, MarkovNetwork, "
            "JunctionTree; valid and invalid arguments) no observed state held a (directed) cycle, no rejected "
            "single operation changed its target, CPDs stayed consistent with the graph after remove_node / do, "
            "and no step changed any other live object or its query answers - apart from the listed known findings.",
    "note": "Trusts the snapshot (raw networkx adjacency dicts, latents, cpds/factors lists) to capture the model "
            "state; bounded to 6 names, cards 1-3, <= 60 steps, <= 5 live objects.",
    "technique": "stateful runtime monitoring: per-step snapshots + class invariant (icontract) + reference oracle",
}

KINDS = [("bn", 40), ("dag", 10), ("dbn", 24), ("mn", 10), ("jt", 16)]


def _wchoice(rng, pairs):
    tot = sum(w for _, w in pairs)
    x = rng.random() * tot
    for v, w in pairs:
        x -= w
        if x < 0:
            return v
    return pairs[-1][0]


def gen_case(seed, idx, tier):
    rng = gen.rng_for("C15", seed, idx)
    kind = _wchoice(rng, KINDS)
    L = rng.choice([rng.randint(5, 15), rng.randint(12, 40), rng.randint(25, 60)])
    if tier == "thorough" and rng.random() < 0.3:
        L = rng.randint(60, 110)                      # deeper histories, more live objects
    spec = {"kind": kind, "np_seed": rng.randrange(2 ** 31), "sn": rng.choice(["id", "id", "str"]),
            "maxpool": 5 if tier != "thorough" else rng.choice([5, 7])}
    if kind in ("bn", "dag"):
        spec["names"] = [0, 1, 2, 3, 4, 5] if rng.random() < 0.2 else ["a", "b", "c", "d", "e", "f"]
    elif kind == "dbn":
        spec["names"] = ["A", "B", "C", "D"]
    elif kind == "mn":
        spec["names"] = ["m0", "m1", "m2", "m3", "m4", "m5"]
    else:
        vs = ["p", "q", "r", "s", "t"]
        cl = []
        while len(cl) < 7:
            c = sorted(rng.sample(vs, rng.choice([1, 2, 2, 3])))
            if c not in cl:
                cl.append(c)
        spec["vars"] = vs
        spec["names"] = cl                      # cliques (lists; turned into tuples at run time)
    base = spec.get("vars", spec["names"])
    spec["card"] = [rng.choice([1, 2, 2, 3]) for _ in base]
    table = ops.OP_TABLE[kind]
    steps = []
    for i in range(L):
        phase = 0 if i < max(3, L * 0.3) else 1
        op = _wchoice(rng, [(o, w[phase]) for o, w in table])
        if kind == "dag" and i == 0:
            op = "construct"
        st = {"op": op, "t": rng.randrange(1000), "r": rng.randrange(2 ** 31),
              "bad": rng.random() < ops.BAD_RATE.get(op, 0.25), "flag": rng.random() < 0.5,
              "m": rng.randrange(1000)}
        steps.append(st)
        if op == "rewire":          # an edge into a CPD owner changed: re-register its CPD on the same object next
            steps.append({"op": "reregister", "t": st["t"], "r": rng.randrange(2 ** 31), "bad": False,
                          "flag": rng.random() < 0.5, "m": rng.randrange(1000)})
    spec["steps"] = steps
    return spec


def case_digest(spec):
    return gen.spec_digest(spec)


# ----------------------------------------------------------------------------- monitors
def setup(ctx):
    ops.install_invariants()


def teardown(ctx):
    return ops.invariant_report()


def run_case(spec, ctx):
    h = ops.History(spec, ctx)
    h.run()
