"""temporary: reduced thorough run of C20 (deleted after self-validation)"""
from rv.props.C20 import *  # noqa
from rv.props import C20 as _b
PLAN = {"quick": dict(_b.PLAN["quick"], cases=300, min_nontrivial=50),
        "thorough": dict(_b.PLAN["thorough"], cases=1200, hashseeds=4, shards=2, min_nontrivial=300)}
def gen_case(seed, idx, tier):
    import random
    from rv import gen
    return _b.gen_case(seed, idx, tier)
