"""Parent process: plans cells, fans out workers, aggregates observations into a
three-valued verdict, writes evidence and replay files.  Never imports pgmpy."""
import argparse
import importlib
import json
import os
import shutil
import subprocess
import sys
import time

HERE = os.path.dirname(os.path.abspath(__file__))
ROOT = os.path.dirname(HERE)
sys.path.insert(0, ROOT)
PY = os.environ.get("RV_PYTHON", "/venv/bin/python")
MAXPAR = int(os.environ.get("RV_MAXPAR", "16"))


def load_known(prop):
    out = {}
    for p in (os.path.join(ROOT, "known_findings.json"), os.environ.get("RV_KNOWN_EXTRA")):
        if not p or not os.path.exists(p):
            continue
        for e in json.load(open(p)):
            if e.get("property") == prop and e.get("status") == "known":
                out[e["key"]] = e
    return out


def hashseeds(tier, seed, n):
    if tier == "quick":
        base = [0, 1, 2 + seed % 997]
    else:
        base = [0, 1, 2 + seed % 997, 7, 11, 13, 42, 101, 1234, 4321, 31337, 65537, 99991, 5, 77, 2024]
    return base[:n]


def run_cells(prop, tier, seed, plan, outdir, only=None, cell=None):
    """Launch workers; returns list of (cellinfo, path, returncode, timed_out)."""
    env0 = dict(os.environ)
    env0.update(PYTHONDONTWRITEBYTECODE="1", OMP_NUM_THREADS="1", MKL_NUM_THREADS="1",
                OPENBLAS_NUM_THREADS="1", NUMEXPR_NUM_THREADS="1", PGMPY_VERIF="1")
    jobs = []
    if cell is not None:
        jobs.append(dict(cell, only=only))
    else:
        hs = hashseeds(tier, seed, plan.get("hashseeds", 3))
        for wl in plan.get("workloads", [None]):
            wl_name, wl_cases = (wl if wl else (None, plan["cases"]))
            for backend in plan.get("backends", ["numpy"]):
                hss = hs if backend == "numpy" else hs[:plan.get("torch_hashseeds", 1)]
                ns = plan.get("shards", 4) if backend == "numpy" else plan.get("torch_shards", 1)
                nc = wl_cases if backend == "numpy" else min(wl_cases, plan.get("torch_cases", wl_cases))
                for h in hss:
                    for s in range(ns):
                        jobs.append(dict(hashseed=h, backend=backend, shard=s, nshards=ns,
                                         ncases=nc, workload=wl_name, only=None))
    timeout = plan.get("timeout", 600)
    deadline = plan.get("deadline", timeout * 0.8)
    pending = list(jobs)
    running = []
    results = []
    while pending or running:
        while pending and len(running) < MAXPAR:
            j = pending.pop(0)
            name = f"h{j['hashseed']}_{j['backend']}_{j.get('workload') or 'main'}_{j['shard']}of{j['nshards']}"
            path = os.path.join(outdir, name + ".jsonl")
            cmd = [PY, "-B", "-W", "ignore", os.path.join(HERE, "worker.py"), "--prop", prop,
                   "--tier", tier, "--seed", str(seed), "--ncases", str(j["ncases"]),
                   "--shard", str(j["shard"]), "--nshards", str(j["nshards"]),
                   "--backend", j["backend"], "--deadline", str(deadline), "--out", path]
            if j.get("workload"):
                cmd += ["--workload", j["workload"]]
            if j.get("only") is not None:
                cmd += ["--only", str(j["only"])]
            env = dict(env0, PYTHONHASHSEED=str(j["hashseed"]))
            log = open(path + ".log", "w")
            p = subprocess.Popen(cmd, env=env, stdout=log, stderr=subprocess.STDOUT, cwd=ROOT)
            running.append((j, path, p, time.time(), log))
        time.sleep(0.2)
        still = []
        for (j, path, p, t0, log) in running:
            rc = p.poll()
            if rc is None:
                if time.time() - t0 > timeout:
                    p.kill()
                    p.wait()
                    log.close()
                    results.append((j, path, -9, True))
                else:
                    still.append((j, path, p, t0, log))
            else:
                log.close()
                results.append((j, path, rc, False))
        running = still
    return results


def _same(a, b, atol=1e-9, rtol=1e-9):
    """Cross-cell equality: exact for strings/ints, tolerant for floats, recursive for lists/dicts."""
    if isinstance(a, float) or isinstance(b, float):
        try:
            if (a != a and b != b) or a == b:
                return True
            return abs(a - b) <= atol + rtol * abs(b)
        except Exception:
            return False
    if isinstance(a, (list, tuple)) and isinstance(b, (list, tuple)):
        return len(a) == len(b) and all(_same(x, y, atol, rtol) for x, y in zip(a, b))
    if isinstance(a, dict) and isinstance(b, dict):
        return set(a) == set(b) and all(_same(a[k], b[k], atol, rtol) for k in a)
    return a == b


def read_cell(path):
    cases, end = [], None
    if not os.path.exists(path):
        return cases, end
    for line in open(path):
        line = line.strip()
        if not line:
            continue
        try:
            r = json.loads(line)
        except Exception:
            continue
        if r.get("t") == "case":
            cases.append(r)
        elif r.get("t") == "end":
            end = r
    return cases, end


def main():
    ap = argparse.ArgumentParser()
    ap.add_argument("prop")
    ap.add_argument("--tier", default=os.environ.get("VERIF_TIER", "quick"))
    ap.add_argument("--replay", default=None)
    ap.add_argument("--keep", action="store_true")
    args = ap.parse_args()
    prop = args.prop
    tier = args.tier if args.tier in ("quick", "thorough") else "quick"
    seed = int(os.environ.get("VERIF_SEED", "0") or 0)
    t0 = time.time()
    mod = importlib.import_module(f"rv.props.{prop}")
    plan = dict(mod.PLAN[tier])
    outdir = os.path.join(ROOT, "out", f"{prop}-{tier}-{os.getpid()}")
    shutil.rmtree(outdir, ignore_errors=True)
    os.makedirs(outdir, exist_ok=True)
    try:
        rc = _run(args, prop, tier, seed, mod, plan, outdir, t0)
    finally:
        if not args.keep:
            shutil.rmtree(outdir, ignore_errors=True)
    sys.exit(rc)


def _run(args, prop, tier, seed, mod, plan, outdir, t0):
    only = cell = None
    if args.replay:
        rp = json.load(open(args.replay))
        seed = rp["seed"]
        tier = rp["tier"]
        plan = dict(mod.PLAN[tier])
        only = rp["idx"]
        cell = dict(hashseed=rp["hashseed"], backend=rp["backend"], shard=0, nshards=1,
                    ncases=rp.get("ncases", only + 1), workload=rp.get("workload"))
    results = run_cells(prop, tier, seed, plan, outdir, only=only, cell=cell)

    known = load_known(prop)
    evaluations = checks = 0
    digests_nt = set()
    digests_all = set()
    violations = []          # (key, rec, vio, cellinfo)
    harness_errors = []
    dead_cells = []
    reach = {}
    monitors = {}
    samples = []
    features = {}
    notes = {}
    xcell = {}
    skipped = 0
    secs = 0.0
    for (j, path, rc, timed_out) in results:
        cases, end = read_cell(path)
        if end is None:
            tail = ""
            try:
                tail = open(path + ".log").read()[-800:]
            except Exception:
                pass
            dead_cells.append({"cell": j, "rc": rc, "timed_out": timed_out, "cases_done": len(cases), "log": tail})
        else:
            skipped += end.get("skipped", 0)
            for k, v in end.get("reach", {}).items():
                if v < 0:
                    reach[k] = min(reach.get(k, 0), -1) if reach.get(k, 0) <= 0 else reach[k]
                else:
                    reach[k] = max(reach.get(k, 0), 0) + v
            for k, v in end.get("monitors", {}).items():
                if isinstance(v, (int, float)):
                    monitors[k] = monitors.get(k, 0) + v
                elif isinstance(v, dict):
                    d = monitors.setdefault(k, {})
                    for kk, vv in v.items():
                        if isinstance(vv, (int, float)):
                            d[kk] = d.get(kk, 0) + vv
                else:
                    monitors.setdefault(k, v)
        for r in cases:
            evaluations += 1
            checks += r.get("checks", 0)
            secs += r.get("secs", 0)
            dg = (j.get("workload"), r.get("digest"))
            digests_all.add(dg)
            if r.get("nontrivial"):
                digests_nt.add(dg)
            for f in r.get("features", []):
                features[f] = features.get(f, 0) + 1
            for k, v in r.get("notes", {}).items():
                notes[k] = notes.get(k, 0) + v
            if "harness_error" in r:
                harness_errors.append({"cell": j, "idx": r["idx"], "err": r["harness_error"], "tb": r.get("tb")})
            for v in r.get("violations", []):
                violations.append((v["key"], r, v, j))
            for k, val in r.get("xcell", {}).items():
                xcell.setdefault((j.get("workload"), r["idx"], k), []).append((val, j, r))
            if "spec" in r and len(samples) < 3 and not r.get("violations") and j["shard"] == 0 and j["hashseed"] == 0:
                samples.append({"idx": r["idx"], "spec": r["spec"], "checks": r.get("checks"),
                                "features": r.get("features")})
    # cross-cell comparison (hash seed / backend independence)
    xcell_compared = 0
    for (wl, idx, k), vals in xcell.items():
        if len(vals) > 1:
            xcell_compared += 1
            first = vals[0][0]
            for (val, j, r) in vals[1:]:
                tol = 2e-6 if "torch" in (j["backend"], vals[0][1]["backend"]) else 1e-9
                if not _same(val, first, tol, tol):
                    vio = {"key": f"xcell:{k}", "what": f"answer digest for '{k}' differs between cells "
                           f"{vals[0][1]['hashseed']}/{vals[0][1]['backend']} and {j['hashseed']}/{j['backend']}",
                           "detail": {"a": first, "b": val}}
                    violations.append((vio["key"], r, vio, j))
                    break

    # classify
    new_v = [(k, r, v, j) for (k, r, v, j) in violations if k not in known]
    known_hit = {}
    for (k, r, v, j) in violations:
        if k in known:
            known_hit.setdefault(k, []).append((r, v, j))

    EVDIR = os.environ.get("RV_EVIDENCE_DIR", os.path.join(ROOT, "evidence"))
    os.makedirs(EVDIR, exist_ok=True)
    replay_paths = []
    if new_v and not args.replay:
        rdir = os.path.join(EVDIR, "replays", prop)
        shutil.rmtree(rdir, ignore_errors=True)
        os.makedirs(rdir, exist_ok=True)
        seen = set()
        for (k, r, v, j) in new_v:
            if k in seen or len(replay_paths) >= 10:
                continue
            seen.add(k)
            p = os.path.join(rdir, f"{len(replay_paths)}.json")
            json.dump({"property": prop, "seed": seed, "tier": tier, "idx": r["idx"], "hashseed": j["hashseed"],
                       "backend": j["backend"], "workload": j.get("workload"), "ncases": j["ncases"],
                       "key": k, "violation": v, "spec": r.get("spec")}, open(p, "w"), indent=1, default=repr)
            replay_paths.append((k, p, v))

    min_nt = plan.get("min_nontrivial", 2)
    req_reach = getattr(mod, "REACH_REQUIRED", [])
    unreached = [t for t in req_reach if reach.get(t, 0) <= 0]
    req_mon = getattr(mod, "MONITORS_REQUIRED", [])
    unmon = [m for m in req_mon if not monitors.get(m)]
    inconclusive = []
    if harness_errors:
        inconclusive.append(f"{len(harness_errors)} checker-side errors (first: {harness_errors[0]['err']})")
    if len(digests_nt) < min_nt and not args.replay:
        inconclusive.append(f"only {len(digests_nt)} distinct non-trivial cases (< {min_nt})")
    if unreached and not args.replay:
        inconclusive.append(f"anchored mechanisms never entered: {unreached}")
    if unmon and not args.replay:
        inconclusive.append(f"monitors never evaluated: {unmon}")
    if dead_cells:
        inconclusive.append(f"{len(dead_cells)} of {len(results)} workers died or timed out "
                            f"(first: rc={dead_cells[0]['rc']} timed_out={dead_cells[0]['timed_out']})")
    if checks == 0:
        inconclusive.append("no oracle comparison was evaluated")

    wall = time.time() - t0
    ev = {
        "property_id": prop, "tier": tier, "seed": seed, "level": "exploration",
        "coverage": {
            "evaluations": evaluations,
            "distinct_nontrivial": len(digests_nt),
            "distinct_cases": len(digests_all),
            "oracle_comparisons": checks,
            "rule": getattr(mod, "RULE", ""),
            "samples": samples or [{"note": "no sample captured"}],
            "cells": [{"hashseed": j["hashseed"], "backend": j["backend"], "workload": j.get("workload"),
                       "shard": f"{j['shard']}/{j['nshards']}", "rc": rc, "timed_out": to}
                      for (j, _, rc, to) in results],
            "hash_seeds": sorted({j["hashseed"] for (j, _, _, _) in results}),
            "backends": sorted({j["backend"] for (j, _, _, _) in results}),
            "cases_skipped_by_deadline": skipped,
            "dead_cells": dead_cells,
            "reach_counts": reach,
            "monitor_counts": monitors,
            "features_seen": dict(sorted(features.items())),
            "notes": dict(sorted(notes.items())),
            "cross_cell_answers_compared": xcell_compared,
            "case_seconds": round(secs, 1),
            "known_findings_observed": {k: len(v) for k, v in known_hit.items()},
            "new_violation_keys": sorted({k for (k, _, _, _) in new_v}),
            "inconclusive_reasons": inconclusive,
            "exhaustive": bool(plan.get("exhaustive", False)),
        },
        "assumptions": getattr(mod, "ASSUMPTIONS", []),
        "wall_s": round(wall, 2),
        "violations": len(new_v),
    }
    if not args.replay:
        json.dump(ev, open(os.path.join(EVDIR, f"{prop}.json"), "w"), indent=1, default=repr)

    print(f"[{prop}/{tier}] seed={seed} cells={len(results)} cases={evaluations} "
          f"distinct_nontrivial={len(digests_nt)} comparisons={checks} wall={wall:.1f}s")
    if reach:
        print(f"[{prop}] reach: " + ", ".join(f"{k.split(':')[-1]}={v}" for k, v in sorted(reach.items())))
    for k, hits in sorted(known_hit.items()):
        print(f"KNOWN-FINDING: property={prop} {k}: {known[k].get('what', '')} (observed {len(hits)}x)")
    if new_v:
        if args.replay:
            for (k, r, v, j) in new_v[:5]:
                print(f"VIOLATION property={prop} replay={args.replay}")
                print(f"  [{k}] {v['what']}")
            return 1
        for (k, p, v) in replay_paths:
            print(f"VIOLATION property={prop} replay={os.path.relpath(p, ROOT)}")
            print(f"  [{k}] {v['what']}")
        return 1
    if inconclusive:
        for r in inconclusive:
            print(f"INCONCLUSIVE property={prop}: {r}")
        for h in harness_errors[:3]:
            print(h.get("tb") or h["err"])
        for d in dead_cells[:2]:
            print("dead cell:", d["cell"], d["log"][-400:])
        return 2
    print(f"HELD property={prop} on what was observed")
    return 0


if __name__ == "__main__":
    main()
