"""Turn specs into real pgmpy objects through the public constructors (worker side)."""
import numpy as np


def tabular_cpd(spec, v, table=None, parents=None):
    from pgmpy.factors.discrete import TabularCPD
    c = spec["cpds"][v]
    pa = list(c["parents"] if parents is None else parents)
    tab = c["table"] if table is None else table
    sn = {x: list(spec["states"][x]) for x in [v] + pa}
    return TabularCPD(v, spec["card"][v], [list(r) for r in tab],
                      evidence=pa or None,
                      evidence_card=[spec["card"][p] for p in pa] or None,
                      state_names=sn)


def bayesian_network(spec, rng=None, cls=None, check=True):
    """Build the BN of a spec.  With rng, node / edge / CPD insertion order is shuffled."""
    from pgmpy.models import BayesianNetwork
    cls = cls or BayesianNetwork
    nodes = list(spec["nodes"])
    edges = [tuple(e) for e in spec["edges"]]
    order = list(nodes)
    if rng is not None:
        rng.shuffle(nodes)
        rng.shuffle(edges)
        rng.shuffle(order)
    m = cls()
    m.add_nodes_from(nodes)
    m.add_edges_from(edges)
    for v in spec.get("latents", []):
        m.latents.add(v)
    m.add_cpds(*[tabular_cpd(spec, v) for v in order])
    if check:
        m.check_model()
    return m


def discrete_factor(spec, f):
    from pgmpy.factors.discrete import DiscreteFactor
    vs = list(f["vars"])
    return DiscreteFactor(vs, [spec["card"][v] for v in vs], np.array(f["values"], dtype=float),
                          state_names={v: list(spec["states"][v]) for v in vs})


def markov_network(spec, rng=None):
    from pgmpy.models import MarkovNetwork
    m = MarkovNetwork()
    nodes = list(spec["nodes"])
    edges = [tuple(e) for e in spec["edges"]]
    fs = list(spec["factors"])
    if rng is not None:
        rng.shuffle(nodes)
        rng.shuffle(edges)
        rng.shuffle(fs)
    m.add_nodes_from(nodes)
    m.add_edges_from(edges)
    m.add_factors(*[discrete_factor(spec, f) for f in fs])
    return m


def factor_graph(spec, rng=None):
    from pgmpy.models import FactorGraph
    g = FactorGraph()
    g.add_nodes_from(list(spec["nodes"]))
    fs = [discrete_factor(spec, f) for f in spec["factors"]]
    if rng is not None:
        rng.shuffle(fs)
    for phi in fs:
        g.add_node(phi)
        for v in phi.variables:
            g.add_edge(v, phi)
    g.add_factors(*fs)
    return g


def to_np(x):
    """values of a factor as a numpy array under either backend."""
    try:
        import torch
        if isinstance(x, torch.Tensor):
            return x.detach().cpu().numpy()
    except Exception:
        pass
    return np.asarray(x)
